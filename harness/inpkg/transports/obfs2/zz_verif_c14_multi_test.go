//go:build verif

package obfs2

// C14 — several connections of one process.
//
// interleaved: 2..4 connections (each real client <-> reference server,
// reference client <-> real server, or real <-> real) whose handshakes are
// driven in lock-step by the harness and interleaved by a generated schedule.
// Every transport write of a real side is held before its bytes are consumed,
// so a handshake can be parked in each of its writes and at each point where it
// waits for peer bytes while other connections run part or all of theirs.
// Every connection must complete and then carry data both ways exactly.
//
// parallel (-race): G goroutines handshake at once against reference peers over
// free-running wires, several rounds.

import (
	"bytes"
	"fmt"
	"io"
	"net"
	"strings"
	"sync"
	"testing"
	"time"

	"pgregory.net/rapid"

	"gitlab.com/yawning/obfs4.git/internal/verifkit/detrand"
	"gitlab.com/yawning/obfs4.git/internal/verifkit/drive"
	"gitlab.com/yawning/obfs4.git/internal/verifkit/ev"
	"gitlab.com/yawning/obfs4.git/internal/verifkit/refobfs2"
	"gitlab.com/yawning/obfs4.git/internal/verifkit/wire"
)

type vfMConn struct {
	idx     int
	arr     int
	n       *wire.Net
	ends    [2]*vfEnd
	gates   [2]*vfHoldConn
	started [2]bool
	steps   int
	// statistics
	overlapHeld  map[int]bool // another connection stepped while a real side of this one was held in transport write #k
	overlapRead  bool         // ... while this one was parked waiting for peer bytes (handshake incomplete)
	interleaved  bool
	lastStepSeen int
}

func (m *vfMConn) ready(i int) bool {
	e := m.ends[i]
	return m.started[i] && e.ep.SetupDone() && e.ep.SetupErr() == nil && e.ep.Conn() != nil
}

func (m *vfMConn) complete() bool { return m.ready(0) && m.ready(1) }

// settle waits until every started endpoint goroutine of the connection is
// held in a transport write, parked in the wire's Read, or finished.  (The
// wait itself polls; the verdicts never depend on elapsed time, only the wedge
// watchdog does.)
func (m *vfMConn) settle() error {
	deadline := time.Now().Add(wire.WatchdogDefault)
	for {
		ok := true
		for i, e := range m.ends {
			if !m.started[i] {
				continue
			}
			if g := m.gates[i]; g != nil && g.isHeld() {
				continue
			}
			if m.n.Done(e.side) || m.n.Parked(e.side) {
				continue
			}
			ok = false
		}
		if ok {
			return nil
		}
		if time.Now().After(deadline) {
			return fmt.Errorf("connection %d did not settle within %v\n%s", m.idx, wire.WatchdogDefault, wire.Stacks())
		}
		time.Sleep(20 * time.Microsecond)
	}
}

func TestVerifC14Interleaved(t *testing.T) {
	vfC14Anchor()
	c := ev.For("C14")
	c.Rule("interleaved: 2..4 connections of one process (each real client<->reference server, reference client<->real server or real<->real), every transport write of a real side held before its bytes are consumed; generated schedule of bursts (connection, 1..6 steps or 'to completion'); step = start a side / let a held write through / release pending bytes (all, 1, 7, 16, 24, 100) to a reader; every handshake must succeed, then every connection carries data both ways under the exact stream oracle; non-trivial = another connection ran at least one handshake step while a connection was parked between two of its own handshake steps; fingerprint = configuration + schedule")
	c.Floor("interleaved-nontrivial/interleaved", 0.70)
	c.Floor("interleaved-other-ran-while-held@seed-write/interleaved", 0.35)
	c.Floor("interleaved-other-ran-while-held@header-write/interleaved", 0.25)
	c.Floor("interleaved-other-ran-while-waiting-for-peer/interleaved", 0.35)
	rapid.Check(t, func(rt *rapid.T) {
		K := rapid.IntRange(2, 4).Draw(rt, "connections")
		rk := rapid.Uint64().Draw(rt, "detrand")
		detrand.Seed(rk)
		defer detrand.Real()
		var trace []string
		var conns []*vfMConn
		fail := func(sig, format string, a ...any) {
			var cfg []string
			for _, m := range conns {
				cfg = append(cfg, fmt.Sprintf("#%d:%s refA=%+v refB=%+v", m.idx, vfArrNames[m.arr], m.ends[0].par, m.ends[1].par))
			}
			rt.Fatalf("VIOL[%s]: %s\n  detrand=%d\n  %s\n  schedule: %s", sig, fmt.Sprintf(format, a...), rk, strings.Join(cfg, "\n  "), strings.Join(trace, " "))
		}
		for i := 0; i < K; i++ {
			arr := rapid.SampledFrom([]int{vfArrRR, vfArrRealClient, vfArrRealClient, vfArrRealServer, vfArrRealServer}).Draw(rt, "arrangement")
			m := &vfMConn{idx: i, arr: arr, n: wire.New(), overlapHeld: map[int]bool{}}
			m.ends = [2]*vfEnd{{side: wire.A, real: arr != vfArrRealServer}, {side: wire.B, real: arr != vfArrRealClient}}
			for j, e := range m.ends {
				if !e.real {
					e.par = vfDrawRefParams(rt, j == 0, fmt.Sprintf("c%dref%v", i, e.side))
				} else {
					m.gates[j] = &vfHoldConn{Conn: m.n.Conn(e.side), holdAt: -1, all: true}
				}
			}
			conns = append(conns, m)
			defer m.n.Shutdown()
			defer func() {
				for _, g := range m.gates {
					if g != nil {
						g.holdAll(false)
						g.letGo()
					}
				}
			}()
		}
		checkConn := func(m *vfMConn, ctx string) {
			for i, e := range m.ends {
				if !m.started[i] {
					continue
				}
				if p, st := e.ep.Panic(); p != nil {
					fail("c14-panic", "%s: connection %d side %v panicked: %v\n%s", ctx, m.idx, e.side, p, st)
				}
				if e.ep.SetupDone() && e.ep.SetupErr() != nil {
					sig := "c14-handshake-error"
					if !e.real {
						sig = "c14-ref-rejects-real"
					}
					fail(sig, "%s: handshake of connection %d side %v (real=%v) failed against a conforming peer: %v", ctx, m.idx, e.side, e.real, e.ep.SetupErr())
				}
				if err := e.ep.ReadErr(); err != nil {
					fail("c14-read-error", "%s: Read on connection %d side %v (real=%v) returned %v", ctx, m.idx, e.side, e.real, err)
				}
			}
		}
		// one handshake step on connection m; returns false when nothing is enabled
		step := func(m *vfMConn) bool {
			type act struct {
				kind string
				i    int
			}
			var enabled []act
			for i := range m.ends {
				if !m.started[i] {
					enabled = append(enabled, act{"start", i})
				} else if g := m.gates[i]; g != nil && g.isHeld() {
					enabled = append(enabled, act{"letgo", i})
				}
				if m.started[1-i] && m.n.Pending(m.ends[i].side) > 0 {
					enabled = append(enabled, act{"release", i})
				}
			}
			if len(enabled) == 0 {
				return false
			}
			a := enabled[rapid.IntRange(0, len(enabled)-1).Draw(rt, "pick")]
			// what the other connections are parked in while this step runs
			for _, o := range conns {
				if o == m || o.steps == 0 || o.complete() {
					continue
				}
				o.interleaved = true
				heldSomewhere := false
				for i, g := range o.gates {
					if g != nil && o.started[i] && g.isHeld() {
						o.overlapHeld[g.heldWrite()] = true
						heldSomewhere = true
					}
				}
				if !heldSomewhere {
					o.overlapRead = true
				}
			}
			e := m.ends[a.i]
			switch a.kind {
			case "start":
				m.started[a.i] = true
				switch {
				case e.real && e.side == wire.A:
					g := m.gates[a.i]
					e.ep = drive.Start(m.n, e.side, func() (net.Conn, error) { return vfRealClientOn(g) })
				case e.real:
					g := m.gates[a.i]
					e.ep = drive.Start(m.n, e.side, func() (net.Conn, error) { return vfRealServerOn(g) })
				default:
					e.ep = drive.Start(m.n, e.side, vfRefSetup(m.n, e.side, e.par, &e.ref))
				}
				trace = append(trace, fmt.Sprintf("%d:start(%v)", m.idx, e.side))
			case "letgo":
				trace = append(trace, fmt.Sprintf("%d:letgo(%v,w%d)", m.idx, e.side, m.gates[a.i].heldWrite()))
				m.gates[a.i].letGo()
			case "release":
				k := rapid.SampledFrom([]int{0, 0, 0, 1, 7, 16, 24, 100}).Draw(rt, "chunk")
				if k <= 0 {
					k = m.n.Pending(e.side)
				}
				got := m.n.Release(e.side, k)
				trace = append(trace, fmt.Sprintf("%d:rel(%v,%d)", m.idx, e.side, got))
			}
			m.steps++
			if err := m.settle(); err != nil {
				fail("c14-wedge", "%v", err)
			}
			checkConn(m, "after "+trace[len(trace)-1])
			return true
		}
		for guard := 0; ; guard++ {
			var open []*vfMConn
			for _, m := range conns {
				if !m.complete() {
					open = append(open, m)
				}
			}
			if len(open) == 0 {
				break
			}
			if guard > 10000 {
				rt.Fatalf("harness: schedule does not terminate")
			}
			m := open[rapid.IntRange(0, len(open)-1).Draw(rt, "conn")]
			burst := rapid.SampledFrom([]int{1, 1, 2, 3, 6, 1000}).Draw(rt, "burst")
			for b := 0; b < burst && !m.complete(); b++ {
				if !step(m) {
					fail("c14-handshake-stuck", "connection %d: every handshake byte has been delivered and every write let through, but the handshake has not completed (A done=%v, B done=%v)", m.idx, m.ends[0].ep.SetupDone(), m.ends[1].ep.SetupDone())
				}
			}
		}
		// ---- data phase: every connection carries data both ways ----
		for _, m := range conns {
			for i, g := range m.gates {
				if g != nil {
					g.holdAll(false)
					if g.isHeld() {
						fail("c14-wedge", "connection %d side %v: a transport write is held although the handshake has returned", m.idx, m.ends[i].side)
					}
				}
			}
			for _, e := range m.ends {
				e.hsLen = int(m.n.Written(e.side))
				if e.real && (e.hsLen < 24 || e.hsLen > 24+refobfs2.MaxPadding) {
					fail("c14-handshake-length", "connection %d real side %v sent %d handshake bytes", m.idx, e.side, e.hsLen)
				}
			}
			// whatever is still pending belongs to the handshakes (padding tails)
			for _, e := range m.ends {
				m.n.ReleaseAll(e.side)
			}
			if err := m.n.WaitQuiescent(wire.A, wire.B); err != nil {
				fail("c14-wedge", "connection %d: %v", m.idx, err)
			}
			exact := func(ctx string) {
				checkConn(m, ctx)
				for i, w := range m.ends {
					r := m.ends[1-i]
					exp := int(m.n.Released(w.side)) - w.hsLen
					if exp < 0 {
						exp = 0
					}
					if got := r.ep.Got(); !bytes.Equal(got, w.sent[:exp]) {
						fail("c14-stream", "%s: connection %d direction %v->%v: reader must hold exactly %d plaintext bytes, holds %d; first difference at %d (reader real=%v, writer real=%v)",
							ctx, m.idx, w.side, r.side, exp, len(got), vfFirstDiff(got, w.sent[:exp]), r.real, w.real)
					}
				}
			}
			for round := 0; round < 2; round++ {
				for _, e := range m.ends {
					k := rapid.OneOf(rapid.IntRange(1, 100), rapid.IntRange(1, 3000)).Draw(rt, "wlen")
					data := vfPayload(int(e.side)+2*m.idx, len(e.sent), k)
					res, wn, _ := e.ep.Write(data)
					if res.Failed() || res.Err != nil || wn != k {
						fail("c14-write-error", "connection %d: Write(%d bytes) on side %v: %s (n=%d)", m.idx, k, e.side, res, wn)
					}
					e.sent = append(e.sent, data...)
				}
				for _, e := range m.ends {
					if round == 0 {
						m.n.Release(e.side, rapid.IntRange(1, 64).Draw(rt, "part"))
					} else {
						m.n.ReleaseAll(e.side)
					}
				}
				if err := m.n.WaitQuiescent(wire.A, wire.B); err != nil {
					fail("c14-wedge", "connection %d: %v", m.idx, err)
				}
				exact(fmt.Sprintf("data round %d", round))
			}
			for i, w := range m.ends {
				if got := m.ends[1-i].ep.Got(); !bytes.Equal(got, w.sent) {
					fail("c14-stream", "connection %d final: direction %v->%v delivered %d of %d bytes", m.idx, w.side, m.ends[1-i].side, len(got), len(w.sent))
				}
			}
		}
		// ---- evidence ----
		cls := []string{"interleaved", fmt.Sprintf("interleaved-%d-connections", K)}
		nt := false
		seen := map[string]bool{}
		add := func(s string) {
			if !seen[s] {
				seen[s] = true
				cls = append(cls, s)
			}
		}
		for _, m := range conns {
			add("interleaved-has-" + vfArrNames[m.arr])
			if m.interleaved {
				nt = true
			}
			if m.overlapHeld[0] {
				add("interleaved-other-ran-while-held@seed-write")
			}
			if m.overlapHeld[1] {
				add("interleaved-other-ran-while-held@header-write")
			}
			if m.overlapRead {
				add("interleaved-other-ran-while-waiting-for-peer")
			}
		}
		if nt {
			add("interleaved-nontrivial")
		}
		tr := strings.Join(trace, " ")
		c.Case(ev.Hash("interleaved", K, rk, tr), nt, cls, func() any {
			tt := tr
			if len(tt) > 700 {
				tt = tt[:700] + " ..."
			}
			var arrs []string
			for _, m := range conns {
				arrs = append(arrs, vfArrNames[m.arr])
			}
			return map[string]any{"connections": arrs, "detrand": rk, "schedule": tt}
		})
	})
}

// ---- free-running, under the race detector ---------------------------------------------

func TestVerifC14Parallel(t *testing.T) {
	vfC14Anchor()
	c := ev.For("C14")
	c.Rule("parallel (-race): G = 2..8 goroutines each handshake a real endpoint (roles alternate) with its own reference peer over a free-running wire, all released by one barrier, 1..3 rounds; then both sides exchange data; oracle: every handshake succeeds, both streams are exact, no data race is reported; non-trivial = G >= 2 (always); fingerprint = parameters (the schedule is the Go scheduler's)")
	c.Assume("parallel: interleavings are sampled by the Go scheduler, not enumerated; a failure is printed with its parameters but may not replay")
	detrand.Real()
	rapid.Check(t, func(rt *rapid.T) {
		G := rapid.IntRange(2, 8).Draw(rt, "goroutines")
		rounds := rapid.IntRange(1, 3).Draw(rt, "rounds")
		base := rapid.Uint64().Draw(rt, "base")
		for round := 0; round < rounds; round++ {
			start := make(chan struct{})
			errs := make(chan string, 2*G)
			var wg sync.WaitGroup
			var nets []*wire.Net
			for g := 0; g < G; g++ {
				n := wire.NewFree(base + uint64(round*100+g))
				nets = append(nets, n)
				realClient := (g+round)%2 == 0
				par := refobfs2.Params{Initiator: !realClient, Seed: detrand.Bytes(base+uint64(g)*7+uint64(round), refobfs2.SeedLen),
					PadLen: uint32((base + uint64(g)*131) % (refobfs2.MaxPadding + 1)), PadSend: -1, FillKey: uint64(g)}
				if g%3 == 0 {
					par.PadLen = 0
				}
				msgReal := vfPayload(2*g, 0, 200+37*g)
				msgRef := vfPayload(2*g+1, 0, 150+53*g)
				exchange := func(who string, cn net.Conn, out, in []byte) {
					if _, err := cn.Write(out); err != nil {
						errs <- fmt.Sprintf("VIOL[c14-write-error]: goroutine %d %s: Write: %v", g, who, err)
						n.Shutdown()
						return
					}
					got := make([]byte, len(in))
					if _, err := io.ReadFull(cn, got); err != nil {
						errs <- fmt.Sprintf("VIOL[c14-read-error]: goroutine %d %s: Read: %v", g, who, err)
						n.Shutdown()
						return
					}
					if !bytes.Equal(got, in) {
						errs <- fmt.Sprintf("VIOL[c14-stream]: goroutine %d %s: stream differs at %d of %d bytes", g, who, vfFirstDiff(got, in), len(in))
						n.Shutdown()
					}
				}
				wg.Add(2)
				go func() {
					defer wg.Done()
					<-start
					res := drive.Call(60*time.Second, func() error {
						var cn net.Conn
						var err error
						if realClient {
							cn, err = vfRealClientOn(n.Conn(wire.A))
						} else {
							cn, err = vfRealServerOn(n.Conn(wire.B))
						}
						if err != nil {
							errs <- fmt.Sprintf("VIOL[c14-handshake-error]: goroutine %d real (client=%v) handshake against a conforming peer: %v", g, realClient, err)
							n.Shutdown()
							return nil
						}
						exchange("real", cn, msgReal, msgRef)
						return nil
					})
					if res.Panic != nil {
						errs <- fmt.Sprintf("VIOL[c14-panic]: goroutine %d: %v\n%s", g, res.Panic, res.Stack)
						n.Shutdown()
					} else if res.TimedOut {
						errs <- fmt.Sprintf("VIOL[c14-wedge]: goroutine %d real side did not finish", g)
						n.Shutdown()
					}
				}()
				go func() {
					defer wg.Done()
					<-start
					side := wire.B
					if !realClient {
						side = wire.A
					}
					cn, err := refobfs2.Handshake(n.Conn(side), par)
					if err != nil {
						errs <- fmt.Sprintf("VIOL[c14-ref-rejects-real]: goroutine %d reference (initiator=%v) rejects the real side's handshake: %v", g, par.Initiator, err)
						n.Shutdown()
						return
					}
					exchange("reference", cn, msgRef, msgReal)
				}()
			}
			close(start)
			wg.Wait()
			for _, n := range nets {
				n.Shutdown()
			}
			close(errs)
			var msgs []string
			for m := range errs {
				msgs = append(msgs, m)
			}
			if len(msgs) > 0 {
				// the first report is the cause; the rest are usually consequences
				rt.Fatalf("%s\n  (G=%d round=%d base=%d; %d reports in total)\n  %s", msgs[0], G, round, base, len(msgs), strings.Join(msgs[1:], "\n  "))
			}
		}
		c.Case(ev.Hash("parallel", G, rounds, base), true, []string{"parallel", fmt.Sprintf("parallel-G%d", G)}, func() any {
			return map[string]any{"goroutines": G, "rounds": rounds, "base": base}
		})
	})
}
