//go:build verif

package obfs2

// C14 — several connections of one process.
//
// interleaved: 2..4 connections (each real client <-> reference server,
// reference client <-> real server, or real <-> real) whose handshakes are
// driven in lock-step by the harness and interleaved by a generated schedule.
// Every transport write of a real side is held before its bytes are consumed,
// so a handshake can be parked in each of its writes and at each point where it
// waits for peer bytes while other connections run part or all of theirs.
// Every connection must complete and then carry data both ways exactly.
//
// parallel (-race): G goroutines handshake at once against reference peers over
// free-running wires, several rounds.

import (
	"bytes"
	"fmt"
	"io"
	"net"
	"strings"
	"sync"
	"testing"
	"time"

	"pgregory.net/rapid"

	"gitlab.com/yawning/obfs4.git/internal/verifkit/detrand"
	"gitlab.com/yawning/obfs4.git/internal/verifkit/drive"
	"gitlab.com/yawning/obfs4.git/internal/verifkit/ev"
	"gitlab.com/yawning/obfs4.git/internal/verifkit/refobfs2"
	"gitlab.com/yawning/obfs4.git/internal/verifkit/wire"
)

// vfPauseConn controls WHEN the application calls Read: in stepped mode the
// endpoint's reader goroutine needs a grant for every Read call (and the grant
// limits that call's buffer), so bytes that have arrived can stay unread while
// other connections run.
type vfPauseConn struct {
	net.Conn
	mu      sync.Mutex
	cond    *sync.Cond
	stepped bool
	grant   int  // > 0: one Read of at most this many bytes may start
	waiting bool // the reader goroutine is blocked waiting for a grant
}

func vfNewPauseConn(stepped bool) *vfPauseConn {
	c := &vfPauseConn{stepped: stepped}
	c.cond = sync.NewCond(&c.mu)
	return c
}

func (c *vfPauseConn) Read(b []byte) (int, error) {
	c.mu.Lock()
	for c.stepped && c.grant == 0 {
		c.waiting = true
		c.cond.Wait()
	}
	c.waiting = false
	if c.stepped {
		if c.grant < len(b) {
			b = b[:c.grant]
		}
		c.grant = 0
	}
	c.mu.Unlock()
	return c.Conn.Read(b)
}

func (c *vfPauseConn) allow(k int) {
	c.mu.Lock()
	c.grant, c.waiting = k, false
	c.cond.Broadcast()
	c.mu.Unlock()
}

func (c *vfPauseConn) free() {
	c.mu.Lock()
	c.stepped, c.waiting = false, false
	c.cond.Broadcast()
	c.mu.Unlock()
}

func (c *vfPauseConn) isWaiting() bool {
	c.mu.Lock()
	defer c.mu.Unlock()
	return c.stepped && c.waiting && c.grant == 0
}

type vfMConn struct {
	idx         int
	arr         int
	n           *wire.Net
	ends        [2]*vfEnd
	gates       [2]*vfHoldConn
	prs         [2]*vfPauseConn // real sides: application reader control
	started     [2]bool
	wrote       [2]bool // the side has done its first application Write
	smallGrants [2]int
	firstRead   [2]bool
	steps       int
	// statistics
	overlapHeld                map[int]bool // another connection stepped while a real side of this one was held in transport write #k
	overlapRead                bool         // ... while this one was parked waiting for peer bytes (handshake incomplete)
	interleaved                bool
	unreadWhileOtherProgressed bool // bytes had arrived for a paused application reader (handshake already consumed) while another connection completed a handshake or a first Read
}

func (m *vfMConn) ready(i int) bool {
	e := m.ends[i]
	return m.started[i] && e.ep.SetupDone() && e.ep.SetupErr() == nil && e.ep.Conn() != nil
}

func (m *vfMConn) handshaken() bool { return m.ready(0) && m.ready(1) }

// complete: both handshakes succeeded, both sides have written once and every
// byte written has been delivered to the peer's application.
func (m *vfMConn) complete() bool {
	for i, e := range m.ends {
		if !m.ready(i) || !m.wrote[i] || m.n.Pending(e.side) > 0 || m.ends[1-i].ep.GotLen() != len(e.sent) {
			return false
		}
	}
	return true
}

// settle waits until every started endpoint goroutine of the connection is
// held in a transport write, parked in the wire's Read, waiting for a Read
// grant, or finished.  (The wait itself polls; the verdicts never depend on
// elapsed time, only the wedge watchdog does.)
func (m *vfMConn) settle() error {
	deadline := time.Now().Add(wire.WatchdogDefault)
	for {
		ok := true
		for i, e := range m.ends {
			if !m.started[i] {
				continue
			}
			if g := m.gates[i]; g != nil && g.isHeld() {
				continue
			}
			if p := m.prs[i]; p != nil && p.isWaiting() {
				continue
			}
			if m.n.Done(e.side) || m.n.Parked(e.side) {
				continue
			}
			ok = false
		}
		if ok {
			return nil
		}
		if time.Now().After(deadline) {
			return fmt.Errorf("connection %d did not settle within %v\n%s", m.idx, wire.WatchdogDefault, wire.Stacks())
		}
		time.Sleep(20 * time.Microsecond)
	}
}

func TestVerifC14Interleaved(t *testing.T) {
	vfC14Anchor()
	c := ev.For("C14")
	c.Rule("interleaved: 2..4 connections of one process (each real client<->reference server, reference client<->real server or real<->real), every transport write of a real side's handshake held before its bytes are consumed; generated schedule of bursts (connection, 1..6 steps or 'to completion'); step = start a side / let a held write through / release pending bytes (all, 1, 7, 16, 24, 100) to a reader / first application Write of a side whose handshake has returned / for a real side whose application reader is stepped (2 of 3): grant one Read call of 1..64 or 65536 bytes, or resume free reading; in half of the cases connection 0 is steered so that the peer's data arrives coalesced with its key establishment message, the application reads only a few bytes of it, and the connection is left alone until another connection has made progress; every handshake must succeed, exact stream oracle after every step (prefix while the application reader is paused), then more data both ways; non-trivial = another connection ran at least one step while a connection was parked between two of its own steps before completing; fingerprint = configuration + schedule")
	c.Floor("interleaved-nontrivial/interleaved", 0.70)
	// (the floor is on "some handshake write", whatever its number: how many
	// transport writes carry the key establishment message is the implementation's
	// business; the per-index classes "...#k" are counted without floors)
	c.Floor("interleaved-other-ran-while-held@some-handshake-write/interleaved", 0.30)
	c.Floor("interleaved-other-ran-while-waiting-for-peer/interleaved", 0.30)
	c.Floor("interleaved-unread-bytes-arrived-while-other-progressed/interleaved", 0.25)
	rapid.Check(t, func(rt *rapid.T) {
		K := rapid.IntRange(2, 4).Draw(rt, "connections")
		rk := rapid.Uint64().Draw(rt, "detrand")
		detrand.Seed(rk)
		defer detrand.Real()
		var trace []string
		var conns []*vfMConn
		fail := func(sig, format string, a ...any) {
			var cfg []string
			for _, m := range conns {
				cfg = append(cfg, fmt.Sprintf("#%d:%s refA=%+v refB=%+v", m.idx, vfArrNames[m.arr], m.ends[0].par, m.ends[1].par))
			}
			rt.Fatalf("VIOL[%s]: %s\n  detrand=%d\n  %s\n  schedule: %s", sig, fmt.Sprintf(format, a...), rk, strings.Join(cfg, "\n  "), strings.Join(trace, " "))
		}
		for i := 0; i < K; i++ {
			arr := rapid.SampledFrom([]int{vfArrRR, vfArrRealClient, vfArrRealClient, vfArrRealServer, vfArrRealServer}).Draw(rt, "arrangement")
			m := &vfMConn{idx: i, arr: arr, n: wire.New(), overlapHeld: map[int]bool{}}
			m.ends = [2]*vfEnd{{side: wire.A, real: arr != vfArrRealServer}, {side: wire.B, real: arr != vfArrRealClient}}
			for j, e := range m.ends {
				if !e.real {
					e.par = vfDrawRefParams(rt, j == 0, fmt.Sprintf("c%dref%v", i, e.side))
				} else {
					m.gates[j] = &vfHoldConn{Conn: m.n.Conn(e.side), holdAt: -1, all: true}
					m.prs[j] = vfNewPauseConn(rapid.IntRange(0, 2).Draw(rt, "stepped-reader") > 0)
				}
			}
			conns = append(conns, m)
			defer m.n.Shutdown()
			defer func() {
				for j := range m.ends {
					if g := m.gates[j]; g != nil {
						g.holdAll(false)
						g.letGo()
					}
					if p := m.prs[j]; p != nil {
						p.free()
					}
				}
			}()
		}
		var frozen *vfMConn
		thaw := false
		// connection m has made progress (a handshake or a first Read completed):
		// which other connections have bytes that arrived for a paused reader?
		progressEvent := func(m *vfMConn) {
			if frozen != nil && m != frozen {
				thaw = true
			}
			for _, o := range conns {
				if o == m {
					continue
				}
				for i, w := range o.ends {
					r := o.ends[1-i]
					if !r.real || !o.wrote[i] || !o.ready(1-i) {
						continue
					}
					if int(o.n.Released(w.side))-w.hsLen-r.ep.GotLen() > 0 && o.prs[1-i].isWaiting() {
						o.unreadWhileOtherProgressed = true
					}
				}
			}
		}
		checkConn := func(m *vfMConn, ctx string) {
			wasHandshaken := m.handshaken()
			for i, w := range m.ends {
				r := m.ends[1-i]
				if !m.started[1-i] {
					continue
				}
				if p, st := r.ep.Panic(); p != nil {
					fail("c14-panic", "%s: connection %d side %v panicked: %v\n%s", ctx, m.idx, r.side, p, st)
				}
				if r.ep.SetupDone() && r.ep.SetupErr() != nil {
					sig := "c14-handshake-error"
					if !r.real {
						sig = "c14-ref-rejects-real"
					}
					fail(sig, "%s: handshake of connection %d side %v (real=%v) failed against a conforming peer: %v", ctx, m.idx, r.side, r.real, r.ep.SetupErr())
				}
				if err := r.ep.ReadErr(); err != nil {
					fail("c14-read-error", "%s: Read on connection %d side %v (real=%v) returned %v", ctx, m.idx, r.side, r.real, err)
				}
				exp := 0
				if m.wrote[i] {
					exp = int(m.n.Released(w.side)) - w.hsLen
					if exp < 0 {
						exp = 0
					}
				}
				got := r.ep.Got()
				if p := m.prs[1-i]; p != nil && p.isWaiting() {
					if len(got) > exp || !bytes.Equal(got, w.sent[:len(got)]) {
						fail("c14-stream", "%s: connection %d direction %v->%v (application reader paused): the %d bytes delivered so far are not a prefix of the %d plaintext bytes that have arrived; first difference at %d",
							ctx, m.idx, w.side, r.side, len(got), exp, vfFirstDiff(got, w.sent[:vfMinInt(len(got), len(w.sent))]))
					}
				} else if m.ready(1-i) && !bytes.Equal(got, w.sent[:exp]) {
					fail("c14-stream", "%s: connection %d direction %v->%v: reader must hold exactly %d plaintext bytes, holds %d; first difference at %d (reader real=%v, writer real=%v)",
						ctx, m.idx, w.side, r.side, exp, len(got), vfFirstDiff(got, w.sent[:exp]), r.real, w.real)
				}
				if len(got) > 0 && !m.firstRead[1-i] {
					m.firstRead[1-i] = true
					if r.real {
						progressEvent(m)
					}
				}
			}
			_ = wasHandshaken
		}
		type stepOpt struct {
			want     func(kind string, i int) bool // nil: draw among the enabled actions
			all      bool
			readLen  int
			minWrite int
		}
		step := func(m *vfMConn, opt stepOpt) bool {
			type act struct {
				kind string
				i    int
			}
			var enabled []act
			for i := range m.ends {
				switch {
				case !m.started[i]:
					enabled = append(enabled, act{"start", i})
				case m.gates[i] != nil && m.gates[i].isHeld():
					enabled = append(enabled, act{"letgo", i})
				case m.ready(i) && !m.wrote[i]:
					enabled = append(enabled, act{"appwrite", i})
				}
				if m.started[1-i] && m.n.Pending(m.ends[i].side) > 0 {
					enabled = append(enabled, act{"release", i})
				}
				if p := m.prs[i]; p != nil && m.started[i] && p.isWaiting() {
					enabled = append(enabled, act{"grant", i}, act{"grant", i}, act{"free", i})
				}
			}
			if len(enabled) == 0 {
				return false
			}
			var a act
			if opt.want != nil {
				found := false
				for _, x := range enabled {
					if opt.want(x.kind, x.i) {
						a, found = x, true
						break
					}
				}
				if !found {
					return false
				}
			} else {
				a = enabled[rapid.IntRange(0, len(enabled)-1).Draw(rt, "pick")]
			}
			// what the other connections are parked in while this step runs
			for _, o := range conns {
				if o == m || o.steps == 0 || o.complete() {
					continue
				}
				o.interleaved = true
				if o.handshaken() {
					continue
				}
				heldSomewhere := false
				for i, g := range o.gates {
					if g != nil && o.started[i] && g.isHeld() {
						o.overlapHeld[g.heldWrite()] = true
						heldSomewhere = true
					}
				}
				if !heldSomewhere {
					o.overlapRead = true
				}
			}
			hsBefore := m.handshaken()
			e := m.ends[a.i]
			switch a.kind {
			case "start":
				m.started[a.i] = true
				g, p := m.gates[a.i], m.prs[a.i]
				switch {
				case e.real && e.side == wire.A:
					e.ep = drive.Start(m.n, e.side, func() (net.Conn, error) {
						cn, err := vfRealClientOn(g)
						if err != nil {
							return nil, err
						}
						p.Conn = cn
						return p, nil
					})
				case e.real:
					e.ep = drive.Start(m.n, e.side, func() (net.Conn, error) {
						cn, err := vfRealServerOn(g)
						if err != nil {
							return nil, err
						}
						p.Conn = cn
						return p, nil
					})
				default:
					e.ep = drive.Start(m.n, e.side, vfRefSetup(m.n, e.side, e.par, &e.ref))
				}
				trace = append(trace, fmt.Sprintf("%d:start(%v)", m.idx, e.side))
			case "letgo":
				trace = append(trace, fmt.Sprintf("%d:letgo(%v,w%d)", m.idx, e.side, m.gates[a.i].heldWrite()))
				m.gates[a.i].letGo()
			case "release":
				k := 0
				if !opt.all {
					k = rapid.SampledFrom([]int{0, 0, 0, 1, 7, 16, 24, 100}).Draw(rt, "chunk")
				}
				if k <= 0 {
					k = m.n.Pending(e.side)
				}
				got := m.n.Release(e.side, k)
				trace = append(trace, fmt.Sprintf("%d:rel(%v,%d)", m.idx, e.side, got))
			case "appwrite":
				if g := m.gates[a.i]; g != nil {
					g.holdAll(false) // only handshake writes are held
				}
				e.hsLen = int(m.n.Written(e.side))
				if e.real && (e.hsLen < 24 || e.hsLen > 24+refobfs2.MaxPadding) {
					fail("c14-handshake-length", "connection %d real side %v sent %d handshake bytes", m.idx, e.side, e.hsLen)
				}
				k := rapid.OneOf(rapid.IntRange(1, 100), rapid.IntRange(1, 3000)).Draw(rt, "wlen")
				if k < opt.minWrite {
					k += opt.minWrite
				}
				data := vfPayload(int(e.side)+2*m.idx, 0, k)
				res, wn, _ := e.ep.Write(data)
				if res.Failed() || res.Err != nil || wn != k {
					fail("c14-write-error", "connection %d: Write(%d bytes) on side %v: %s (n=%d)", m.idx, k, e.side, res, wn)
				}
				e.sent = append(e.sent, data...)
				m.wrote[a.i] = true
				trace = append(trace, fmt.Sprintf("%d:write(%v,%d)", m.idx, e.side, k))
			case "grant":
				k := 65536
				if opt.readLen > 0 {
					k = opt.readLen
					m.smallGrants[a.i]++
				} else if m.smallGrants[a.i] < 3 && rapid.IntRange(0, 3).Draw(rt, "small-read") > 0 {
					k = rapid.IntRange(1, 64).Draw(rt, "readlen")
					m.smallGrants[a.i]++
				}
				m.prs[a.i].allow(k)
				trace = append(trace, fmt.Sprintf("%d:read(%v,%d)", m.idx, e.side, k))
			case "free":
				m.prs[a.i].free()
				trace = append(trace, fmt.Sprintf("%d:resume(%v)", m.idx, e.side))
			}
			m.steps++
			if err := m.settle(); err != nil {
				fail("c14-wedge", "%v", err)
			}
			checkConn(m, "after "+trace[len(trace)-1])
			if !hsBefore && m.handshaken() {
				progressEvent(m)
			}
			return true
		}
		// Scenario (half of the cases): on connection 0 the peer finishes its
		// handshake and writes before the real side has read anything, the peer's
		// key establishment message and data are released as ONE segment, the real
		// side's application reads only a few bytes, and the connection is left
		// alone until another connection has completed a handshake or a first Read.
		if rapid.Bool().Draw(rt, "scenario-unread") {
			m0 := conns[0]
			ri := 0
			if !m0.ends[0].real || (m0.ends[1].real && rapid.Bool().Draw(rt, "scenario-side")) {
				ri = 1
			}
			m0.prs[ri].stepped = true
			w := m0.ends[1-ri]
			for g := 0; g < 50 && !m0.ready(1-ri); g++ {
				// everything except delivering the peer's bytes to the real side
				if !step(m0, stepOpt{all: true, want: func(k string, i int) bool {
					return k == "start" || k == "letgo" || (k == "release" && i == ri)
				}}) {
					break
				}
			}
			step(m0, stepOpt{minWrite: 80, want: func(k string, i int) bool { return k == "appwrite" && i == 1-ri }})
			for g := 0; g < 10 && m0.n.Pending(w.side) > 0; g++ {
				step(m0, stepOpt{all: true, want: func(k string, i int) bool { return k == "release" && i == 1-ri }})
			}
			if step(m0, stepOpt{readLen: rapid.IntRange(1, 64).Draw(rt, "scenario-readlen"), want: func(k string, i int) bool { return k == "grant" && i == ri }}) {
				frozen = m0
			}
		}
		for guard := 0; ; guard++ {
			var open []*vfMConn
			for _, m := range conns {
				if !m.complete() && (m != frozen || thaw) {
					open = append(open, m)
				}
			}
			if len(open) == 0 && frozen != nil && !thaw {
				thaw = true
				continue
			}
			if len(open) == 0 {
				break
			}
			if guard > 10000 {
				rt.Fatalf("harness: schedule does not terminate")
			}
			m := open[rapid.IntRange(0, len(open)-1).Draw(rt, "conn")]
			burst := rapid.SampledFrom([]int{1, 1, 2, 3, 6, 1000}).Draw(rt, "burst")
			for b := 0; b < burst && !m.complete(); b++ {
				if !step(m, stepOpt{}) {
					fail("c14-handshake-stuck", "connection %d: nothing left to deliver or let through, but it is not complete (A: setup=%v wrote=%v; B: setup=%v wrote=%v)", m.idx,
						m.ends[0].ep.SetupDone(), m.wrote[0], m.ends[1].ep.SetupDone(), m.wrote[1])
				}
			}
		}
		// ---- more data on every connection ----
		for _, m := range conns {
			for i := range m.ends {
				if g := m.gates[i]; g != nil {
					g.holdAll(false)
				}
				if p := m.prs[i]; p != nil {
					p.free()
				}
			}
			if err := m.settle(); err != nil {
				fail("c14-wedge", "%v", err)
			}
			checkConn(m, "complete")
			for round := 0; round < 2; round++ {
				for _, e := range m.ends {
					k := rapid.OneOf(rapid.IntRange(1, 100), rapid.IntRange(1, 3000)).Draw(rt, "wlen2")
					data := vfPayload(int(e.side)+2*m.idx, len(e.sent), k)
					res, wn, _ := e.ep.Write(data)
					if res.Failed() || res.Err != nil || wn != k {
						fail("c14-write-error", "connection %d: Write(%d bytes) on side %v: %s (n=%d)", m.idx, k, e.side, res, wn)
					}
					e.sent = append(e.sent, data...)
					if int(m.n.Written(e.side)) != e.hsLen+len(e.sent) {
						fail("c14-expansion", "connection %d side %v: %d bytes on the wire for a %d-byte handshake and %d plaintext bytes", m.idx, e.side, m.n.Written(e.side), e.hsLen, len(e.sent))
					}
				}
				for _, e := range m.ends {
					if round == 0 {
						m.n.Release(e.side, rapid.IntRange(1, 64).Draw(rt, "part"))
					} else {
						m.n.ReleaseAll(e.side)
					}
				}
				if err := m.n.WaitQuiescent(wire.A, wire.B); err != nil {
					fail("c14-wedge", "connection %d: %v", m.idx, err)
				}
				checkConn(m, fmt.Sprintf("data round %d", round))
			}
			for i, w := range m.ends {
				if got := m.ends[1-i].ep.Got(); !bytes.Equal(got, w.sent) {
					fail("c14-stream", "connection %d final: direction %v->%v delivered %d of %d bytes", m.idx, w.side, m.ends[1-i].side, len(got), len(w.sent))
				}
			}
		}
		// ---- evidence ----
		cls := []string{"interleaved", fmt.Sprintf("interleaved-%d-connections", K)}
		nt := false
		seen := map[string]bool{}
		add := func(s string) {
			if !seen[s] {
				seen[s] = true
				cls = append(cls, s)
			}
		}
		for _, m := range conns {
			add("interleaved-has-" + vfArrNames[m.arr])
			if m.interleaved {
				nt = true
			}
			for k := range m.overlapHeld {
				add("interleaved-other-ran-while-held@some-handshake-write")
				add(fmt.Sprintf("interleaved-other-ran-while-held@handshake-write#%d", k))
			}
			if m.overlapRead {
				add("interleaved-other-ran-while-waiting-for-peer")
			}
			if m.unreadWhileOtherProgressed {
				add("interleaved-unread-bytes-arrived-while-other-progressed")
			}
			if m.smallGrants[0]+m.smallGrants[1] > 0 {
				add("interleaved-small-application-read")
			}
		}
		if nt {
			add("interleaved-nontrivial")
		}
		tr := strings.Join(trace, " ")
		c.Case(ev.Hash("interleaved", K, rk, tr), nt, cls, func() any {
			tt := tr
			if len(tt) > 700 {
				tt = tt[:700] + " ..."
			}
			var arrs []string
			for _, m := range conns {
				arrs = append(arrs, vfArrNames[m.arr])
			}
			return map[string]any{"connections": arrs, "detrand": rk, "schedule": tt}
		})
	})
}

func vfMinInt(a, b int) int {
	if a < b {
		return a
	}
	return b
}

// ---- free-running, under the race detector ---------------------------------------------

func TestVerifC14Parallel(t *testing.T) {
	vfC14Anchor()
	c := ev.For("C14")
	c.Rule("parallel (-race): G = 2..8 goroutines each handshake a real endpoint (roles alternate) with its own reference peer over a free-running wire, all released by one barrier, 1..3 rounds; then both sides exchange data; oracle: every handshake succeeds, both streams are exact, no data race is reported; non-trivial = G >= 2 (always); fingerprint = parameters (the schedule is the Go scheduler's)")
	c.Assume("parallel: interleavings are sampled by the Go scheduler, not enumerated; a failure is printed with its parameters but may not replay")
	detrand.Real()
	rapid.Check(t, func(rt *rapid.T) {
		G := rapid.IntRange(2, 8).Draw(rt, "goroutines")
		rounds := rapid.IntRange(1, 3).Draw(rt, "rounds")
		base := rapid.Uint64().Draw(rt, "base")
		for round := 0; round < rounds; round++ {
			start := make(chan struct{})
			errs := make(chan string, 16*G)
			var wg sync.WaitGroup
			var nets []*wire.Net
			for g := 0; g < G; g++ {
				g := g // (the module declares go 1.20: loop variables are shared)
				n := wire.NewFree(base + uint64(round*100+g))
				nets = append(nets, n)
				realClient := (g+round)%2 == 0
				par := refobfs2.Params{Initiator: !realClient, Seed: detrand.Bytes(base+uint64(g)*7+uint64(round), refobfs2.SeedLen),
					PadLen: uint32((base + uint64(g)*131) % (refobfs2.MaxPadding + 1)), PadSend: -1, FillKey: uint64(g)}
				if g%3 == 0 {
					par.PadLen = 0
				}
				msgReal := vfPayload(2*g, 0, 200+37*g)
				msgRef := vfPayload(2*g+1, 0, 150+53*g)
				exchange := func(who string, cn net.Conn, out, in []byte) {
					if _, err := cn.Write(out); err != nil {
						errs <- fmt.Sprintf("VIOL[c14-write-error]: goroutine %d %s: Write: %v", g, who, err)
						n.Shutdown()
						return
					}
					got := make([]byte, len(in))
					if _, err := io.ReadFull(cn, got); err != nil {
						errs <- fmt.Sprintf("VIOL[c14-read-error]: goroutine %d %s: Read: %v", g, who, err)
						n.Shutdown()
						return
					}
					if !bytes.Equal(got, in) {
						errs <- fmt.Sprintf("VIOL[c14-stream]: goroutine %d %s: stream differs at %d of %d bytes", g, who, vfFirstDiff(got, in), len(in))
						n.Shutdown()
					}
				}
				wg.Add(2)
				go func() {
					defer wg.Done()
					<-start
					res := drive.Call(60*time.Second, func() error {
						var cn net.Conn
						var err error
						if realClient {
							cn, err = vfRealClientOn(n.Conn(wire.A))
						} else {
							cn, err = vfRealServerOn(n.Conn(wire.B))
						}
						if err != nil {
							errs <- fmt.Sprintf("VIOL[c14-handshake-error]: goroutine %d real (client=%v) handshake against a conforming peer: %v", g, realClient, err)
							n.Shutdown()
							return nil
						}
						exchange("real", cn, msgReal, msgRef)
						return nil
					})
					if res.Panic != nil {
						errs <- fmt.Sprintf("VIOL[c14-panic]: goroutine %d: %v\n%s", g, res.Panic, res.Stack)
						n.Shutdown()
					} else if res.TimedOut {
						errs <- fmt.Sprintf("VIOL[c14-wedge]: goroutine %d real side did not finish", g)
						n.Shutdown()
					}
				}()
				go func() {
					defer wg.Done()
					<-start
					side := wire.B
					if !realClient {
						side = wire.A
					}
					cn, err := refobfs2.Handshake(n.Conn(side), par)
					if err != nil {
						errs <- fmt.Sprintf("VIOL[c14-ref-rejects-real]: goroutine %d reference (initiator=%v) rejects the real side's handshake: %v", g, par.Initiator, err)
						n.Shutdown()
						return
					}
					exchange("reference", cn, msgRef, msgReal)
				}()
			}
			close(start)
			wg.Wait()
			for _, n := range nets {
				n.Shutdown()
			}
			close(errs)
			var msgs []string
			for m := range errs {
				msgs = append(msgs, m)
			}
			if len(msgs) > 0 {
				// the first report is the cause; the rest are usually consequences
				rt.Fatalf("%s\n  (G=%d round=%d base=%d; %d reports in total)\n  %s", msgs[0], G, round, base, len(msgs), strings.Join(msgs[1:], "\n  "))
			}
		}
		c.Case(ev.Hash("parallel", G, rounds, base), true, []string{"parallel", fmt.Sprintf("parallel-G%d", G)}, func() any {
			return map[string]any{"goroutines": G, "rounds": rounds, "base": base}
		})
	})
}
