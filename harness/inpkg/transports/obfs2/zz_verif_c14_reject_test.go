//go:build verif

package obfs2

// C14 — damaged handshakes: a wrong magic value (each of the 32 bits, random
// values) or a padding length above MAX_PADDING (8193, 2^32-1, random) sent by a
// reference peer must make the handshake of the real side (Dial / WrapConn)
// return an error; the neighbouring valid handshakes (padding 0, 8192) must be
// accepted and the data that follows them delivered.

import (
	"bytes"
	"encoding/json"
	"fmt"
	"net"
	"os"
	"testing"

	"gitlab.com/yawning/obfs4.git/internal/verifkit/detrand"
	"gitlab.com/yawning/obfs4.git/internal/verifkit/drive"
	"gitlab.com/yawning/obfs4.git/internal/verifkit/ev"
	"gitlab.com/yawning/obfs4.git/internal/verifkit/refobfs2"
	"gitlab.com/yawning/obfs4.git/internal/verifkit/wire"
)

type vfBadCase struct {
	Role     string `json:"role"` // "client": real client, damaged reference responder; "server": real server, damaged reference initiator
	MagicXor uint32 `json:"magic_xor"`
	PadLen   uint32 `json:"padlen"`
	Plan     string `json:"plan"` // segmentation of the damaged handshake
	Seed     uint64 `json:"seed"`
}

func (c vfBadCase) valid() bool { return c.MagicXor == 0 && c.PadLen <= refobfs2.MaxPadding }

var vfBadPlans = []string{"all", "bytes", "split16", "split20", "hdr-1"}

type vfBadOutcome struct {
	rejectedAtHeader bool
}

// vfRunBad returns "" or a violation message.
func vfRunBad(cs vfBadCase, out *vfBadOutcome) string {
	detrand.Seed(cs.Seed)
	defer detrand.Real()
	n := wire.New()
	defer n.Shutdown()
	realSide := wire.A
	if cs.Role == "server" {
		realSide = wire.B
	}
	refSide := realSide.Peer()
	var ep *drive.Endpoint
	if realSide == wire.A {
		ep = drive.Start(n, realSide, func() (net.Conn, error) { return vfRealClient(n) })
	} else {
		ep = drive.Start(n, realSide, func() (net.Conn, error) { return vfRealServer(n) })
	}
	if err := n.WaitQuiescent(realSide); err != nil {
		return fmt.Sprintf("VIOL[c14-wedge]: real %s did not park after sending its handshake: %v", cs.Role, err)
	}
	mine := n.PendingBytes(realSide)
	if len(mine) < refobfs2.SeedLen+refobfs2.HeaderLen {
		return fmt.Sprintf("VIOL[c14-handshake-length]: real %s wrote only %d handshake bytes", cs.Role, len(mine))
	}
	realSeed := mine[:refobfs2.SeedLen]
	send := int(cs.PadLen)
	if cs.PadLen > 9000 {
		send = 9000
	}
	p := refobfs2.Params{Initiator: cs.Role == "server", Seed: detrand.Bytes(cs.Seed^0x0bf52, refobfs2.SeedLen), PadLen: cs.PadLen, PadSend: send,
		MagicXor: cs.MagicXor, FillKey: cs.Seed}
	hs := refobfs2.BuildHandshake(p)
	// Application data under the session keys follows the handshake: an
	// implementation that wrongly accepts would deliver it.
	var keys *refobfs2.Keys
	if p.Initiator {
		keys = refobfs2.DeriveKeys(p.Seed, realSeed)
	} else {
		keys = refobfs2.DeriveKeys(realSeed, p.Seed)
	}
	probe := vfPayload(7, 0, 100)
	ct := make([]byte, len(probe))
	keys.Stream(p.Initiator).XORKeyStream(ct, probe)
	n.Inject(refSide, append(append([]byte(nil), hs...), ct...))

	var segs []int
	switch cs.Plan {
	case "all":
	case "bytes":
		for i := 0; i < 24; i++ {
			segs = append(segs, 1)
		}
	case "split16":
		segs = []int{16, 8}
	case "split20":
		segs = []int{16, 4, 4}
	case "hdr-1":
		segs = []int{23, 1}
	default:
		return "harness: unknown plan " + cs.Plan
	}
	wait := func() string {
		if err := n.WaitQuiescent(realSide); err != nil {
			return fmt.Sprintf("VIOL[c14-wedge]: real %s did not become quiescent: %v", cs.Role, err)
		}
		if pv, st := ep.Panic(); pv != nil {
			return fmt.Sprintf("VIOL[c14-panic]: real %s panicked on a damaged handshake: %v\n%s", cs.Role, pv, st)
		}
		return ""
	}
	for _, k := range segs {
		n.Release(refSide, k)
		if msg := wait(); msg != "" {
			return msg
		}
	}
	if len(segs) > 0 && ep.SetupDone() && ep.SetupErr() != nil {
		out.rejectedAtHeader = true
	}
	n.ReleaseAll(refSide)
	if msg := wait(); msg != "" {
		return msg
	}
	if cs.valid() {
		if !ep.SetupDone() || ep.SetupErr() != nil {
			return fmt.Sprintf("VIOL[c14-valid-rejected]: real %s did not accept a conforming handshake (PADLEN %d): done=%v err=%v", cs.Role, cs.PadLen, ep.SetupDone(), ep.SetupErr())
		}
		if got := ep.Got(); !bytes.Equal(got, probe) {
			return fmt.Sprintf("VIOL[c14-stream]: real %s after a conforming handshake (PADLEN %d) delivered %d bytes, want the %d bytes sent; first difference at %d", cs.Role, cs.PadLen, len(got), len(probe), vfFirstDiff(got, probe))
		}
		return ""
	}
	what := fmt.Sprintf("magic %08x", uint32(refobfs2.MagicValue)^cs.MagicXor)
	sig := "c14-bad-magic-accepted"
	if cs.MagicXor == 0 {
		what = "the right magic"
		sig = "c14-oversized-padlen-accepted"
	}
	if !ep.SetupDone() {
		return fmt.Sprintf("VIOL[%s]: real %s has received the whole damaged handshake (%s, PADLEN %d, %d bytes incl. %d padding + 100 data) and is still waiting instead of returning an error", sig, cs.Role, what, cs.PadLen, len(hs)+len(ct), send)
	}
	if ep.SetupErr() == nil {
		return fmt.Sprintf("VIOL[%s]: real %s accepted a handshake with %s, PADLEN %d (delivered %d bytes afterwards)", sig, cs.Role, what, cs.PadLen, ep.GotLen())
	}
	if ep.GotLen() != 0 {
		return fmt.Sprintf("VIOL[%s]: real %s delivered %d bytes after a rejected handshake", sig, cs.Role, ep.GotLen())
	}
	return ""
}

func TestVerifC14Reject(t *testing.T) {
	vfC14Anchor()
	if rc := os.Getenv("VERIF_REPLAY_CASE"); rc != "" {
		var cs vfBadCase
		if err := json.Unmarshal([]byte(rc), &cs); err != nil {
			t.Fatalf("bad replay case: %v", err)
		}
		var o vfBadOutcome
		if msg := vfRunBad(cs, &o); msg != "" {
			fmt.Printf("VERIF-REPLAY-CASE: %s\n", rc)
			t.Fatalf("%s\ncase %+v", msg, cs)
		}
		return
	}
	c := ev.For("C14")
	c.Rule("reject: reference peer sends a damaged key-establishment message followed by session-encrypted data, in 5 segmentations (one segment, 24 one-byte segments, 16|8, 16|4|4, 23|1): every single-bit flip of MAGIC_VALUE, PADLEN in {8193, 8194, 65536, 2^31, 2^32-1}, pseudo-random wrong magics / oversized PADLENs, both roles; controls PADLEN 0, 1, 8191, 8192 with the right magic must be accepted and deliver; non-trivial = every damaged case; distinct by construction (enumeration) or by fingerprint (random batch)")
	shard, nshards := ev.IntEnv("VERIF_SHARD", 0), ev.IntEnv("VERIF_NSHARDS", 1)
	seed := uint64(ev.IntEnv("VERIF_SEED", 1))
	var cases []vfBadCase
	idx := uint64(0)
	add := func(role string, x, pl uint32, plan string) {
		idx++
		cases = append(cases, vfBadCase{Role: role, MagicXor: x, PadLen: pl, Plan: plan, Seed: seed*1000003 + idx})
	}
	enum := 0
	for _, role := range []string{"client", "server"} {
		for _, plan := range vfBadPlans {
			for bit := 0; bit < 32; bit++ {
				add(role, 1<<uint(bit), uint32(17*bit), plan)
			}
			for _, pl := range []uint32{8193, 8194, 65536, 1 << 31, 0xffffffff} {
				add(role, 0, pl, plan)
			}
			for _, pl := range []uint32{0, 1, 8191, 8192} {
				add(role, 0, pl, plan)
			}
		}
	}
	enum = len(cases)
	nrand := 300
	if ev.Thorough() {
		nrand = 6000
	}
	rnd := detrand.Bytes(seed^0xc14, nrand*12)
	for i := 0; i < nrand; i++ {
		b := rnd[i*12 : i*12+12]
		x := uint32(b[0])<<24 | uint32(b[1])<<16 | uint32(b[2])<<8 | uint32(b[3])
		pl := uint32(b[4])<<24 | uint32(b[5])<<16 | uint32(b[6])<<8 | uint32(b[7])
		role := []string{"client", "server"}[b[8]&1]
		plan := vfBadPlans[int(b[9])%len(vfBadPlans)]
		switch b[10] % 4 {
		case 0: // wrong magic, valid padlen
			if x == 0 {
				x = 0x80000001
			}
			add(role, x, pl%(refobfs2.MaxPadding+1), plan)
		case 1: // right magic, oversized padlen close to the limit
			add(role, 0, refobfs2.MaxPadding+1+pl%64, plan)
		case 2: // right magic, arbitrary oversized padlen
			if pl <= refobfs2.MaxPadding {
				pl += refobfs2.MaxPadding + 1
			}
			add(role, 0, pl, plan)
		default: // both wrong
			if x == 0 {
				x = 1
			}
			if pl <= refobfs2.MaxPadding {
				pl += refobfs2.MaxPadding + 1
			}
			add(role, x, pl, plan)
		}
	}
	var bulk, bulkNT int64
	for i, cs := range cases {
		if i%nshards != shard {
			continue
		}
		var o vfBadOutcome
		if msg := vfRunBad(cs, &o); msg != "" {
			js, _ := json.Marshal(cs)
			fmt.Printf("VERIF-REPLAY-CASE: %s\n", js)
			t.Fatalf("%s\ncase %+v", msg, cs)
		}
		kind := "reject-control-valid"
		switch {
		case cs.MagicXor != 0 && cs.PadLen > refobfs2.MaxPadding:
			kind = "reject-magic+padlen"
		case cs.MagicXor != 0:
			kind = "reject-magic"
		case cs.PadLen > refobfs2.MaxPadding:
			kind = "reject-padlen"
		}
		cls := []string{kind, "reject-role-" + cs.Role, "reject-plan-" + cs.Plan}
		if o.rejectedAtHeader {
			cls = append(cls, "rejected-as-soon-as-header-complete")
		}
		if i < enum {
			bulk++
			if !cs.valid() {
				bulkNT++
			}
			for _, k := range cls {
				c.Class(k, 1)
			}
			if i%97 == 0 {
				c.Sample(ev.Hash("c14-reject", i), map[string]any{"case": cs, "rejected_at_header": o.rejectedAtHeader})
			}
			continue
		}
		cs := cs
		c.Case(ev.Hash("c14-reject", cs.Role, cs.MagicXor, cs.PadLen, cs.Plan), !cs.valid(), cls, func() any { return map[string]any{"case": cs} })
	}
	c.Bulk(bulk, bulkNT)
	if shard == 0 {
		c.Subspace("single-bit flips of MAGIC_VALUE x 2 roles x 5 segmentations", 320)
		c.Subspace("PADLEN in {8193, 8194, 65536, 2^31, 2^32-1} x 2 roles x 5 segmentations", 50)
		c.Subspace("controls PADLEN in {0, 1, 8191, 8192} x 2 roles x 5 segmentations", 40)
	}
}
