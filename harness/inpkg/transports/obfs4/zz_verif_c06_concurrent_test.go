//go:build verif

package obfs4

// C06 - the handshake messages a bridge emits are the deployed format also when several connections of one
// bridge process handshake at the same time (a bridge runs one goroutine per accepted connection).

import (
	"fmt"
	"os"
	"sync"
	"testing"

	"gitlab.com/yawning/obfs4.git/internal/verifkit/ev"
	"gitlab.com/yawning/obfs4.git/internal/verifkit/refobfs4"
)

func TestVerifC06ConcurrentHandshakes(t *testing.T) {
	vfSetup(t)
	c := ev.For("C06")
	c.Rule("concurrent-handshakes: per round one real server factory and G = 2..12 goroutines, each submitting 3 handshakes of its own reference client (own key, padding) on fresh connections at the same time; oracle: every handshake is accepted and its response verifies in the reference client (Y' decodes, AUTH, mark, MAC under the client's hour) and the inline seed frame opens with the derived keys; no panic; every round counts as non-trivial; fingerprint = shard, round")
	rounds := 40
	if os.Getenv("VERIF_TIER") == "thorough" {
		rounds = 600
	}
	shard := os.Getenv("VERIF_SHARD")
	for r := 0; r < rounds; r++ {
		br := vfBridge{ID: refobfs4.NewIdentity(vfEnt(uint64(9000 + r))(52)), Seed: vfEnt(uint64(19000 + r))(24)}
		sf, err := vfServerFactory(br)
		if err != nil {
			t.Fatalf("VIOL[c06-serverfactory]: %v", err)
		}
		g := 2 + r%11
		var mu sync.Mutex
		var fails []string
		var opens []*vfSrvConn
		var wg sync.WaitGroup
		start := make(chan struct{})
		for i := 0; i < g; i++ {
			wg.Add(1)
			go func(i int) {
				defer wg.Done()
				ent := vfEnt(uint64(r*1000 + i))
				<-start
				for k := 0; k < 3; k++ {
					_, accepted, resp, cl, sc, err := vfAcceptOne(sf, br, ent, 0)
					mu.Lock()
					if sc != nil {
						opens = append(opens, sc)
					}
					mu.Unlock()
					msg := ""
					var pv any
					if sc != nil && sc.ep != nil {
						pv, _ = sc.ep.Panic()
					}
					switch {
					case err != nil && pv == nil:
						msg = fmt.Sprintf("VIOL[c06-concurrent-wedge]: connection %d.%d: %v", i, k, err)
					case pv != nil:
						msg = fmt.Sprintf("VIOL[c06-concurrent-panic]: connection %d.%d: WrapConn panicked: %v", i, k, pv)
					case !accepted:
						msg = fmt.Sprintf("VIOL[c06-concurrent-rejected]: connection %d.%d: a well-formed client handshake was not accepted while %d connections handshake at once (WrapConn done=%v err=%v)", i, k, g, sc.ep.SetupDone(), sc.ep.SetupErr())
					default:
						sh, perr := cl.ParseResponse(resp)
						if perr != nil {
							msg = fmt.Sprintf("VIOL[c06-concurrent-response]: connection %d.%d: the server's response does not verify in the reference client while %d connections handshake at once: %v", i, k, g, perr)
						} else {
							_, s2c := refobfs4.Keys(sh.KeySeed)
							dec := refobfs4.NewDecoder(s2c)
							dec.Feed(resp[sh.Len:])
							if _, derr := dec.All(); derr != nil {
								msg = fmt.Sprintf("VIOL[c06-concurrent-response]: connection %d.%d: inline seed frame does not open: %v", i, k, derr)
							}
						}
					}
					if msg != "" {
						mu.Lock()
						fails = append(fails, msg)
						mu.Unlock()
						return
					}
				}
			}(i)
		}
		close(start)
		wg.Wait()
		for _, sc := range opens {
			sc.n.Shutdown()
		}
		if len(fails) > 0 {
			t.Fatalf("%s\n(round %d, %d failures in all)", fails[0], r, len(fails))
		}
		c.Case(ev.Hash("c06conc", shard, r), true, []string{"concurrent-handshakes"}, nil)
	}
}
