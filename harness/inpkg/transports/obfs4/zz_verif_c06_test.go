//go:build verif

package obfs4

// C06 — the wire format stays interoperable with the deployed protocol: the real
// client against the reference server, the reference client against the real
// server, and byte-level re-derivation of everything the real side emits.

import (
	"bytes"
	"fmt"
	"net"
	"testing"

	"pgregory.net/rapid"

	"gitlab.com/yawning/obfs4.git/internal/verifkit/detrand"
	"gitlab.com/yawning/obfs4.git/internal/verifkit/drive"
	"gitlab.com/yawning/obfs4.git/internal/verifkit/ev"
	"gitlab.com/yawning/obfs4.git/internal/verifkit/refobfs4"
	"gitlab.com/yawning/obfs4.git/internal/verifkit/wire"
)

// vfReleaseChunks releases everything pending from side s in generated segments.
func vfReleaseChunks(rt *rapid.T, n *wire.Net, s wire.Side, label string, wait ...wire.Side) error {
	for n.Pending(s) > 0 {
		pend := n.Pending(s)
		k := pend
		switch rapid.IntRange(0, 5).Draw(rt, label+"Plan") {
		case 0:
			k = 1
		case 1:
			k = rapid.IntRange(1, pend).Draw(rt, label+"K")
		case 2:
			if pend > 45 {
				k = pend - 45
			}
		case 3:
			if pend > 16 {
				k = pend - rapid.IntRange(1, 16).Draw(rt, label+"Tail")
			}
		}
		n.Release(s, k)
		if err := n.WaitQuiescent(wait...); err != nil {
			return err
		}
	}
	return nil
}

// vfFrameSpec is one frame the reference side sends.
type vfFrameSpec struct {
	Typ     byte
	Payload int
	Pad     int
}

func vfGenFrames(rt *rapid.T, label string) []vfFrameSpec {
	k := rapid.IntRange(0, 6).Draw(rt, label+"Frames")
	var out []vfFrameSpec
	for i := 0; i < k; i++ {
		var f vfFrameSpec
		if i > 0 && rapid.IntRange(0, 3).Draw(rt, label+"SameAsPrev") == 0 {
			out = append(out, out[i-1]) // runs of equally long frames (bulk transfers look like that)
			continue
		}
		switch rapid.IntRange(0, 9).Draw(rt, label+"Kind") {
		case 0: // padding only
			f = vfFrameSpec{0, 0, rapid.IntRange(0, refobfs4.MaxPacketPayload).Draw(rt, label+"Pad")}
		case 1: // maximum payload
			f = vfFrameSpec{0, refobfs4.MaxPacketPayload, 0}
		case 2: // payload + padding filling the frame
			p := rapid.IntRange(1, refobfs4.MaxPacketPayload-1).Draw(rt, label+"Pl")
			f = vfFrameSpec{0, p, refobfs4.MaxPacketPayload - p}
		case 3: // unknown packet type (must be ignored)
			f = vfFrameSpec{byte(rapid.IntRange(2, 255).Draw(rt, label+"Typ")), rapid.IntRange(0, 100).Draw(rt, label+"Pl"), rapid.IntRange(0, 50).Draw(rt, label+"Pad")}
		case 4: // a seed packet in mid-stream
			f = vfFrameSpec{1, 24, 0}
		default:
			p := rapid.IntRange(1, refobfs4.MaxPacketPayload).Draw(rt, label+"Pl")
			f = vfFrameSpec{0, p, rapid.IntRange(0, refobfs4.MaxPacketPayload-p).Draw(rt, label+"Pad")}
		}
		out = append(out, f)
	}
	return out
}

// vfCheckFrames re-derives the packet-level facts of frames emitted by a real endpoint.
func vfCheckFrames(frames []*refobfs4.Frame, who string) string {
	for i, f := range frames {
		if f.WireLen > refobfs4.MaxSegment {
			return fmt.Sprintf("VIOL[c06-frame-too-long]: %s frame %d is %d bytes on the wire (> 1448)", who, i, f.WireLen)
		}
		if f.Type != refobfs4.PktPayload {
			return fmt.Sprintf("VIOL[c06-packet-type]: %s sent packet type %d in a data burst", who, f.Type)
		}
		for _, b := range f.Pad {
			if b != 0 {
				return fmt.Sprintf("VIOL[c06-padding-not-zero]: %s frame %d carries non-zero padding", who, i)
			}
		}
	}
	return ""
}

func vfC06Case(rt *rapid.T, c *ev.Collector) {
	rk := rapid.Uint64().Draw(rt, "randKey")
	defer vfRandSeedKey(rk)()
	br, cls := vfGenBridge(rt, []int{0, 0, 1, 2})
	ent := vfEnt(rapid.Uint64().Draw(rt, "refEntropy"))
	realIsClient := rapid.Bool().Draw(rt, "realIsClient")
	legacy := rapid.Bool().Draw(rt, "legacyBridgeLine")
	hour0 := vfHourNow()
	n := wire.New()
	defer n.Shutdown()
	var desc map[string]any
	nonDefaultPad := false
	framesEachWay := [2]int{}

	if realIsClient {
		cls = append(cls, "real-client/ref-server")
		cf, cargs, err := vfClientArgs(br, legacy, br.IAT)
		if err != nil {
			rt.Fatalf("VIOL[c06-parseargs]: %v", err)
		}
		// steer the padding length the real client draws to its extremes now and then
		// (values just beyond the legal maximum wrap around to small paddings in a correct implementation)
		steer := rapid.SampledFrom([]int{-1, -1, -1, -1, 0, 0, refobfs4.ClientMaxPad - refobfs4.ClientMinPad, refobfs4.ClientMaxPad - refobfs4.ClientMinPad, refobfs4.ClientMaxPad - refobfs4.ClientMinPad + 1, refobfs4.ClientMaxPad - refobfs4.ClientMinPad + 2}).Draw(rt, "steerRealClientPad")
		if steer >= 0 {
			detrand.ForceIntn(steer)
		}
		cl := drive.Start(n, wire.A, func() (net.Conn, error) { return cf.Dial("tcp", "192.0.2.1:1", vfDialFn(n.Conn(wire.A)), cargs) })
		if err := n.WaitQuiescent(wire.A); err != nil {
			rt.Fatalf("VIOL[c06-wedge]: %v", err)
		}
		detrand.ClearForced()
		hs := n.Take(wire.A)
		if steer >= 0 && (len(hs) == refobfs4.ClientMinHS+refobfs4.ClientMinPad || len(hs) == refobfs4.MaxHandshake) {
			cls = append(cls, "real-side-padding-steered-to-extreme")
		}
		if w, _, _ := n.Snapshot(); len(w) != 1 {
			cls = append(cls, "client-handshake-in-several-writes") // not demanded by the property
		}
		if len(hs) > refobfs4.MaxHandshake || len(hs) < refobfs4.ClientMinHS+refobfs4.ClientMinPad {
			rt.Fatalf("VIOL[c06-client-hs-length]: client handshake is %d bytes, want %d..%d", len(hs), refobfs4.ClientMinHS+refobfs4.ClientMinPad, refobfs4.MaxHandshake)
		}
		// server padding: extremes, in-range, and (10 %) beyond what can be found within 8192 bytes
		var spad int
		tooLong := false
		switch k := rapid.IntRange(0, 9).Draw(rt, "serverPadClass"); {
		case k == 0:
			spad = 0
		case k == 1:
			spad = refobfs4.ServerMaxPad
		case k == 2:
			spad = rapid.IntRange(refobfs4.MaxHandshake-refobfs4.ServerMinHS+1, refobfs4.MaxHandshake+200).Draw(rt, "serverPadTooLong")
			tooLong = true
		default:
			spad = rapid.IntRange(0, refobfs4.ServerMaxPad).Draw(rt, "serverPad")
		}
		nonDefaultPad = spad == 0 || spad == refobfs4.ServerMaxPad
		sv := &refobfs4.Server{ID: br.ID, Key: refobfs4.NewEKey(ent), Pad: ent(spad)}
		if err := sv.ParseClient(hs, hour0); err != nil {
			if vfHourNow() != hour0 {
				rt.Skip("hour changed during the case")
			}
			rt.Fatalf("VIOL[c06-client-handshake]: reference server cannot accept the real client's handshake (%d bytes): %v", len(hs), err)
		}
		if sv.ClientHour != hour0 && vfHourNow() == hour0 {
			rt.Fatalf("VIOL[c06-client-hour]: client stamped hour %d, clock says %d", sv.ClientHour, hour0)
		}
		if sv.ClientPad < refobfs4.ClientMinPad || sv.ClientPad > refobfs4.ClientMaxPad {
			rt.Fatalf("VIOL[c06-client-pad]: client padding %d outside %d..%d", sv.ClientPad, refobfs4.ClientMinPad, refobfs4.ClientMaxPad)
		}
		c2s, s2c := refobfs4.Keys(sv.KeySeed)
		enc, dec := refobfs4.NewEncoder(s2c), refobfs4.NewDecoder(c2s)
		refSeed := ent(24)
		var first []byte
		first = append(first, sv.Response()...)
		first = append(first, enc.Frame(refobfs4.PktSeed, refSeed, 0)...)
		// data behind the handshake
		specs := vfGenFrames(rt, "s2c")
		var want []byte
		off := 0
		for _, f := range specs {
			pl := vfCounterStream(1, off, f.Payload)
			if f.Typ == refobfs4.PktPayload {
				want = append(want, pl...)
				off += f.Payload
				framesEachWay[1]++
			} else if f.Typ == refobfs4.PktSeed {
				pl = ent(24)
			}
			first = append(first, enc.Frame(f.Typ, pl, f.Pad)...)
		}
		n.Inject(wire.B, first)
		if err := vfReleaseChunks(rt, n, wire.B, "s2c", wire.A); err != nil {
			rt.Fatalf("VIOL[c06-wedge]: %v", err)
		}
		if msg := vfEndpointFailure("client", cl); msg != "" {
			rt.Fatalf("%s", msg)
		}
		if tooLong {
			if cl.SetupDone() && cl.SetupErr() == nil {
				rt.Fatalf("VIOL[c06-overlong-response-accepted]: client accepted a response whose mark ends beyond %d bytes (padding %d)", refobfs4.MaxHandshake, spad)
			}
			cls = append(cls, "server-pad-too-long")
			c.Case(ev.Hash("toolong", spad, rk), true, cls, func() any {
				return map[string]any{"arrangement": "real client / ref server", "server_pad": spad, "outcome": "rejected"}
			})
			return
		}
		if !cl.SetupDone() || cl.SetupErr() != nil {
			rt.Fatalf("VIOL[c06-client-rejects-reference]: real client did not complete the handshake with the reference server (server padding %d): done=%v err=%v", spad, cl.SetupDone(), cl.SetupErr())
		}
		if err := cl.ReadErr(); err != nil {
			rt.Fatalf("VIOL[c06-client-read-error]: client Read: %v (frames %v)", err, specs)
		}
		if got := cl.Got(); !bytes.Equal(got, want) {
			rt.Fatalf("VIOL[c06-s2c-data]: client obtained %d bytes, reference server sent %d payload bytes in frames %v", len(got), len(want), specs)
		}
		// client -> reference server
		nw := rapid.IntRange(0, 3).Draw(rt, "clientWrites")
		woff := 0
		for i := 0; i < nw; i++ {
			sz := rapid.SampledFrom([]int{0, 1, 1427, 1428, 2854, 3000, 32768, 70000}).Draw(rt, "clientWriteSize")
			if br.IAT == iatParanoid && sz > 1428 {
				sz = 1428
			}
			if br.IAT == iatEnabled && sz > 3000 {
				sz = 3000
			}
			data := vfCounterStream(0, woff, sz)
			res, wn, _ := cl.Write(data)
			if res.Failed() || res.Err != nil || wn != sz {
				rt.Fatalf("VIOL[c06-client-write]: Write(%d) = %d, %s", sz, wn, res)
			}
			dec.Feed(n.Take(wire.A))
			frames, err := dec.All()
			if err != nil {
				rt.Fatalf("VIOL[c06-c2s-frame]: reference decoder cannot open what the real client sent (write %d of %d bytes): %v", i, sz, err)
			}
			if dec.Buffered() != 0 {
				rt.Fatalf("VIOL[c06-c2s-partial]: client burst does not end on a frame boundary (%d bytes left)", dec.Buffered())
			}
			if msg := vfCheckFrames(frames, "client"); msg != "" {
				rt.Fatalf("%s", msg)
			}
			var got []byte
			for _, f := range frames {
				got = append(got, f.Payload...)
				if len(f.Payload) > 0 {
					framesEachWay[0]++
				}
			}
			if !bytes.Equal(got, data) {
				rt.Fatalf("VIOL[c06-c2s-data]: frames of write %d carry %d payload bytes, %d were written (or content differs)", i, len(got), sz)
			}
			woff += sz
		}
		desc = map[string]any{"arrangement": "real client / ref server", "legacy_bridge_line": legacy, "client_pad": sv.ClientPad, "server_pad": spad, "s2c_frames": specs, "client_writes": nw, "iat": br.IAT}
	} else {
		cls = append(cls, "ref-client/real-server")
		sf, err := vfServerFactory(br)
		if err != nil {
			rt.Fatalf("VIOL[c06-serverfactory]: %v", err)
		}
		steer := rapid.SampledFrom([]int{-1, -1, -1, -1, 0, 0, refobfs4.ServerMaxPad, refobfs4.ServerMaxPad, refobfs4.ServerMaxPad + 1, refobfs4.ServerMaxPad + 2}).Draw(rt, "steerRealServerPad")
		if steer >= 0 {
			detrand.ForceIntn(steer)
		}
		sv := drive.Start(n, wire.B, func() (net.Conn, error) { return sf.WrapConn(n.Conn(wire.B)) })
		if err := n.WaitQuiescent(wire.B); err != nil {
			rt.Fatalf("VIOL[c06-wedge]: %v", err)
		}
		detrand.ClearForced()
		var cpad int
		outOfRange := false
		switch k := rapid.IntRange(0, 9).Draw(rt, "clientPadClass"); {
		case k == 0:
			cpad = refobfs4.ClientMinPad
		case k == 1:
			cpad = refobfs4.ClientMaxPad
		case k == 2:
			cpad = refobfs4.ClientMinPad - 1
			outOfRange = true
		case k == 3:
			cpad = refobfs4.ClientMaxPad + 1
			outOfRange = true
		default:
			cpad = rapid.IntRange(refobfs4.ClientMinPad, refobfs4.ClientMaxPad).Draw(rt, "clientPad")
		}
		nonDefaultPad = cpad == refobfs4.ClientMinPad || cpad == refobfs4.ClientMaxPad
		hoff := int64(rapid.IntRange(-1, 1).Draw(rt, "hourOffset"))
		cl := &refobfs4.Client{ID: refobfs4.Identity{Pub: br.ID.Pub, NodeID: br.ID.NodeID}, Key: refobfs4.NewEKey(ent), Pad: ent(cpad), Hour: hour0 + hoff}
		n.Inject(wire.A, cl.Handshake())
		if err := vfReleaseChunks(rt, n, wire.A, "c2s", wire.B); err != nil {
			rt.Fatalf("VIOL[c06-wedge]: %v", err)
		}
		if msg := vfEndpointFailure("server", sv); msg != "" {
			rt.Fatalf("%s", msg)
		}
		if vfHourNow() != hour0 {
			rt.Skip("hour changed during the case")
		}
		if outOfRange {
			if n.Written(wire.B) != 0 || (sv.SetupDone() && sv.SetupErr() == nil) {
				rt.Fatalf("VIOL[c06-out-of-range-pad-accepted]: server accepted a client handshake with padding %d (allowed %d..%d)", cpad, refobfs4.ClientMinPad, refobfs4.ClientMaxPad)
			}
			cls = append(cls, "client-pad-out-of-range")
			c.Case(ev.Hash("oor", cpad, rk), true, cls, func() any {
				return map[string]any{"arrangement": "ref client / real server", "client_pad": cpad, "outcome": "not accepted"}
			})
			return
		}
		if !sv.SetupDone() || sv.SetupErr() != nil {
			rt.Fatalf("VIOL[c06-server-rejects-reference]: real server did not accept the reference client's handshake (padding %d, hour offset %d): done=%v err=%v", cpad, hoff, sv.SetupDone(), sv.SetupErr())
		}
		if w, _, _ := n.Snapshot(); len(w) != 1 {
			cls = append(cls, "server-response-in-several-writes") // not demanded by the property
		}
		resp := n.Take(wire.B)
		sh, err := cl.ParseResponse(resp)
		if err != nil {
			rt.Fatalf("VIOL[c06-server-response]: reference client cannot accept the real server's response (%d bytes, client hour offset %d): %v", len(resp), hoff, err)
		}
		if steer >= 0 && (sh.PadLen == 0 || sh.PadLen == refobfs4.ServerMaxPad) {
			cls = append(cls, "real-side-padding-steered-to-extreme")
		}
		if sh.PadLen < refobfs4.ServerMinPad || sh.PadLen > refobfs4.ServerMaxPad {
			rt.Fatalf("VIOL[c06-server-pad]: server padding %d outside 0..%d", sh.PadLen, refobfs4.ServerMaxPad)
		}
		if len(resp) > refobfs4.MaxHandshake {
			rt.Fatalf("VIOL[c06-server-hs-length]: response plus seed frame is %d bytes (> 8192)", len(resp))
		}
		if len(resp) != sh.Len+refobfs4.SeedFrameLen {
			rt.Fatalf("VIOL[c06-seed-frame-length]: %d bytes follow the response in the first write, want one %d-byte seed frame", len(resp)-sh.Len, refobfs4.SeedFrameLen)
		}
		c2s, s2c := refobfs4.Keys(sh.KeySeed)
		enc, dec := refobfs4.NewEncoder(c2s), refobfs4.NewDecoder(s2c)
		dec.Feed(resp[sh.Len:])
		fr, err := dec.All()
		if err != nil || len(fr) != 1 {
			rt.Fatalf("VIOL[c06-seed-frame]: seed frame does not open under the server->client key (nonce counter 1): %d frames, %v", len(fr), err)
		}
		if fr[0].Type != refobfs4.PktSeed || !bytes.Equal(fr[0].Payload, br.Seed) || len(fr[0].Pad) != 0 {
			rt.Fatalf("VIOL[c06-seed-frame-content]: first frame has type %d, payload %x, %d padding bytes; want type 1, the bridge seed %x, no padding", fr[0].Type, fr[0].Payload, len(fr[0].Pad), br.Seed)
		}
		// reference client -> real server
		specs := vfGenFrames(rt, "c2s")
		var out, want []byte
		off := 0
		for _, f := range specs {
			pl := vfCounterStream(0, off, f.Payload)
			if f.Typ == refobfs4.PktPayload {
				want = append(want, pl...)
				off += f.Payload
				framesEachWay[0]++
			} else if f.Typ == refobfs4.PktSeed {
				pl = ent(24)
			}
			out = append(out, enc.Frame(f.Typ, pl, f.Pad)...)
		}
		n.Inject(wire.A, out)
		if err := vfReleaseChunks(rt, n, wire.A, "c2sData", wire.B); err != nil {
			rt.Fatalf("VIOL[c06-wedge]: %v", err)
		}
		if msg := vfEndpointFailure("server", sv); msg != "" {
			rt.Fatalf("%s", msg)
		}
		if err := sv.ReadErr(); err != nil {
			rt.Fatalf("VIOL[c06-server-read-error]: server Read: %v (frames %v)", err, specs)
		}
		if got := sv.Got(); !bytes.Equal(got, want) {
			rt.Fatalf("VIOL[c06-c2s-data]: server obtained %d bytes, reference client sent %d payload bytes in frames %v", len(got), len(want), specs)
		}
		// real server -> reference client
		nw := rapid.IntRange(0, 3).Draw(rt, "serverWrites")
		woff := 0
		for i := 0; i < nw; i++ {
			sz := rapid.SampledFrom([]int{0, 1, 1427, 1428, 2854, 3000, 32768, 70000}).Draw(rt, "serverWriteSize")
			if br.IAT == iatParanoid && sz > 1428 {
				sz = 1428
			}
			if br.IAT == iatEnabled && sz > 3000 {
				sz = 3000
			}
			data := vfCounterStream(1, woff, sz)
			res, wn, _ := sv.Write(data)
			if res.Failed() || res.Err != nil || wn != sz {
				rt.Fatalf("VIOL[c06-server-write]: Write(%d) = %d, %s", sz, wn, res)
			}
			dec.Feed(n.Take(wire.B))
			frames, err := dec.All()
			if err != nil {
				rt.Fatalf("VIOL[c06-s2c-frame]: reference decoder cannot open what the real server sent (write %d of %d bytes): %v", i, sz, err)
			}
			if dec.Buffered() != 0 {
				rt.Fatalf("VIOL[c06-s2c-partial]: server burst does not end on a frame boundary (%d bytes left)", dec.Buffered())
			}
			if msg := vfCheckFrames(frames, "server"); msg != "" {
				rt.Fatalf("%s", msg)
			}
			var got []byte
			for _, f := range frames {
				got = append(got, f.Payload...)
				if len(f.Payload) > 0 {
					framesEachWay[1]++
				}
			}
			if !bytes.Equal(got, data) {
				rt.Fatalf("VIOL[c06-s2c-data]: frames of write %d carry %d payload bytes, %d were written (or content differs)", i, len(got), sz)
			}
			woff += sz
		}
		desc = map[string]any{"arrangement": "ref client / real server", "client_pad": cpad, "hour_offset": hoff, "server_pad": sh.PadLen, "c2s_frames": specs, "server_writes": nw, "iat": br.IAT}
	}
	if nonDefaultPad {
		cls = append(cls, "extreme-padding")
	}
	nt := framesEachWay[0] >= 2 && framesEachWay[1] >= 2
	c.Case(ev.Hash(fmt.Sprint(desc), rk), nt, cls, func() any { return desc })
	_ = detrand.Used
}

func TestVerifC06Interop(t *testing.T) {
	vfSetup(t)
	c := ev.For("C06")
	c.Rule("interop: generated bridge identity/seed/IAT mode/bridge-line form; either the real client talks to the reference server or the reference client to the real server, with reference-side padding lengths incl. the extremes (client 77/8128, server 0/8051) and just outside, hour offsets -1..1, the real side's own random padding length steered to its minimum / maximum in 40 % of the cases (through the randomness override), generated frame sequences (payload, padding-only, payload+padding, unknown types, mid-stream seed packets) delivered in generated segments, and generated real-side writes; oracle: both handshakes complete for in-range values and not for out-of-range ones, data flows intact both ways, and the reference side (holding the keys) re-derives every byte-level fact of what the real side emitted; non-trivial = >= 2 payload frames in each direction; fingerprint = arrangement, paddings, frame list, randomness key")
	c.Assume("'deployed format' is what the property states; the reference shares only primitives (SHA-256, HMAC, secretbox, X25519 scalar multiplication) with the code under test and is anchored by SipHash / RFC 7748 / RFC 5869 vectors at start-up")
	c.Floor("real-client/ref-server", 0.3)
	c.Floor("ref-client/real-server", 0.3)
	c.Floor("extreme-padding", 0.1)
	c.Floor("real-side-padding-steered-to-extreme", 0.15)
	rapid.Check(t, func(rt *rapid.T) { vfC06Case(rt, c) })
}

// TestVerifC06LongSession: many frames in both directions of one connection, so
// that the nonce counter and the length-mask generator run past their one- and
// two-byte carries (frames 256 and 65536) against the reference implementation.
func TestVerifC06LongSession(t *testing.T) {
	vfSetup(t)
	c := ev.For("C06")
	c.Rule("long-session: one connection per role arrangement carrying 66000 frames in each direction (past the two-byte carry of the big-endian nonce counter; thorough: 2^24 + 2000 frames in one direction per arrangement, past the three-byte carry), small frames from the reference side, 1-byte writes and a few large writes from the real side; oracle: every frame of the real side opens in the reference decoder with the expected payload, everything the reference sends is delivered intact")
	n := 66000 // past the two-byte carry of the counter (frame 65536)
	big := 0
	if ev.Thorough() {
		big = 1<<24 + 2000 // thorough: one direction per arrangement goes past the three-byte carry
	}
	shard, nshards := ev.IntEnv("VERIF_SHARD", 0), ev.IntEnv("VERIF_NSHARDS", 1)
	for ri, realIsClient := range []bool{true, false} {
		if ri%nshards != shard%2 && nshards > 1 {
			continue
		}
		br := vfBridge{ID: refobfs4.NewIdentity(vfEnt(0x106)(52)), Seed: vfEnt(0x107)(24)}
		s, err := vfRefSession(br, vfEnt(0x108+uint64(ri)), realIsClient, false)
		if err != nil {
			t.Fatalf("VIOL[c06-session]: %v", err)
		}
		dirIn, dirOut := byte(1), byte(0)
		if !realIsClient {
			dirIn, dirOut = 0, 1
		}
		nIn, nOut := n, n
		if big > 0 && realIsClient {
			nIn = big
		} else if big > 0 {
			nOut = big
		}
		// reference -> real: nIn small frames, released in a few big segments
		off := 0
		var batch []byte
		delivered := 0
		for i := 0; i < nIn; i++ {
			k := 1 + i%3
			pl := vfCounterStream(dirIn, off, k)
			off += k
			batch = append(batch, s.Enc.Frame(refobfs4.PktPayload, pl, i%2)...)
			if len(batch) > 60000 || i == nIn-1 {
				s.N.Inject(s.RefSide, batch)
				s.N.ReleaseAll(s.RefSide)
				batch = nil
				if err := s.N.WaitQuiescent(s.RealSide); err != nil {
					t.Fatalf("VIOL[c06-wedge]: %v", err)
				}
				if rerr := s.Ep.ReadErr(); rerr != nil {
					t.Fatalf("VIOL[c06-long-session-read]: realIsClient=%v: Read failed after about %d reference frames: %v", realIsClient, i+1, rerr)
				}
				// compare and drop what has been delivered so far (keeps memory flat)
				got := s.Ep.TakeGot()
				if !bytes.Equal(got, vfCounterStream(dirIn, delivered, len(got))) || delivered+len(got) != off {
					t.Fatalf("VIOL[c06-long-session-read]: realIsClient=%v: after %d reference frames %d bytes were delivered (want %d) or content differs", realIsClient, i+1, delivered+len(got), off)
				}
				delivered += len(got)
			}
		}
		// real -> reference: 1-byte writes (one payload frame + padding frames each) until n frames were seen
		frames := 0
		woff := 0
		for frames < nOut {
			sz := 1
			if frames%97 == 0 {
				sz = 40000 // 29 frames at once
			}
			data := vfCounterStream(dirOut, woff, sz)
			res, wn, _ := s.Ep.Write(data)
			if res.Failed() || res.Err != nil || wn != sz {
				t.Fatalf("VIOL[c06-long-session-write]: Write(%d) = %d, %s", sz, wn, res)
			}
			s.Dec.Feed(s.N.Take(s.RealSide))
			fr, err := s.Dec.All()
			if err != nil {
				t.Fatalf("VIOL[c06-long-session-frame]: realIsClient=%v: the reference decoder cannot open frame %d of the real side's stream: %v", realIsClient, frames+len(fr)+1, err)
			}
			var got []byte
			for _, f := range fr {
				got = append(got, f.Payload...)
			}
			if !bytes.Equal(got, data) {
				t.Fatalf("VIOL[c06-long-session-frame]: realIsClient=%v: payload mismatch around frame %d", realIsClient, frames)
			}
			frames += len(fr)
			woff += sz
			if woff%4096 == 0 {
				s.N.DropLogs()
			}
		}
		s.N.Shutdown()
		c.Bulk(2, 2)
		c.Sample(ev.Hash("long", realIsClient, n), map[string]any{"unit": "long-session", "real_is_client": realIsClient, "frames_each_way": n})
	}
	c.Class("long-session-frames-each-way", int64(n))
	c.Class("long-session-frames-long-direction", int64(big))
}
