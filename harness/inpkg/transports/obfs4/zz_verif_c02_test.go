//go:build verif

package obfs4

// C02 — the client only completes with the holder of the bridge identity key.

import (
	"bytes"
	"crypto/sha512"
	"encoding/hex"
	"errors"
	"fmt"
	"net"
	"strconv"
	"sync"
	"testing"
	"time"

	"pgregory.net/rapid"

	"gitlab.torproject.org/tpo/anti-censorship/pluggable-transports/goptlib"

	"gitlab.com/yawning/obfs4.git/internal/verifkit/detrand"
	"gitlab.com/yawning/obfs4.git/internal/verifkit/drive"
	"gitlab.com/yawning/obfs4.git/internal/verifkit/ev"
	"gitlab.com/yawning/obfs4.git/internal/verifkit/refntor"
	"gitlab.com/yawning/obfs4.git/internal/verifkit/refobfs4"
	"gitlab.com/yawning/obfs4.git/internal/verifkit/wire"
	"gitlab.com/yawning/obfs4.git/internal/x25519ell2"
	"gitlab.com/yawning/obfs4.git/transports/base"
)

// vfClientMustFail lets the client run to quiescence, then ends the exchange
// (EOF or fired deadline) and demands that Dial failed and nothing was delivered.
func vfClientMustFail(n *wire.Net, cl *drive.Endpoint, endByDeadline bool, what string) string {
	if err := n.WaitQuiescent(wire.A); err != nil {
		return "VIOL[c02-wedge]: " + err.Error()
	}
	if !cl.SetupDone() {
		if endByDeadline {
			if !n.Fire(wire.A) {
				return fmt.Sprintf("VIOL[c02-no-deadline]: client is waiting for the handshake without an armed deadline (%s)", what)
			}
		} else {
			n.EOF(wire.B)
		}
		if err := n.WaitQuiescent(wire.A); err != nil {
			return "VIOL[c02-wedge]: " + err.Error()
		}
	}
	if pv, st := cl.Panic(); pv != nil {
		return fmt.Sprintf("VIOL[c02-panic]: client panicked (%s): %v\n%s", what, pv, st)
	}
	if !cl.SetupDone() {
		return fmt.Sprintf("VIOL[c02-dial-hangs]: Dial did not return after the exchange ended (%s)", what)
	}
	if cl.SetupErr() == nil {
		return fmt.Sprintf("VIOL[c02-handshake-completed]: Dial succeeded although it must fail (%s)", what)
	}
	if cl.GotLen() != 0 {
		return fmt.Sprintf("VIOL[c02-data-delivered]: %d application bytes delivered although the handshake must fail (%s)", cl.GotLen(), what)
	}
	return ""
}

var vfErrInjected = errors.New("verif: injected network error")

var (
	vfTamperMu   sync.Mutex
	vfTamperBits = map[int]bool{}
)

// vfTamper applies one blind modification to a genuine response.  resp is
// response | seed frame; the response proper ends at len(resp)-45.
func vfTamper(rt *rapid.T, resp []byte, other []byte, id refobfs4.Identity) ([]byte, string) {
	l := len(resp) - refobfs4.SeedFrameLen
	out := append([]byte(nil), resp...)
	fixed := func(i int) int { // i in 0..95 -> offset of the i-th byte of Y'|AUTH|M_S|MAC_S
		if i < 64 {
			return i
		}
		return l - 32 + (i - 64)
	}
	switch k := rapid.IntRange(0, 11).Draw(rt, "tamperKind"); {
	case k >= 10:
		// informed middlebox: knows the bridge line, so it can repair mark and MAC
		bit := rapid.IntRange(0, 511).Draw(rt, "informedBit")
		if bit == 254 || bit == 255 {
			// the two pad bits of the representative are not part of the key and are
			// authenticated only by the (public-key) MAC: changing them and repairing
			// the MAC changes nothing the client could or should notice
			bit -= 2
		}
		body := append([]byte(nil), resp[:l-32]...)
		body[bit/8] ^= 1 << uint(bit%8)
		fixed := refobfs4.ReMAC(id, body, vfHourNow())
		return append(fixed, resp[l:]...), fmt.Sprintf("flip bit %d of Y'|AUTH and recompute M_S/MAC_S from the public bridge line", bit)
	case k < 5:
		bit := rapid.IntRange(0, 767).Draw(rt, "fieldBit")
		out[fixed(bit/8)] ^= 1 << uint(bit%8)
		vfTamperMu.Lock()
		vfTamperBits[bit] = true
		vfTamperMu.Unlock()
		return out, fmt.Sprintf("flip bit %d of Y'|AUTH|M_S|MAC_S (response offset %d of %d)", bit, fixed(bit/8), l)
	case k < 6:
		if l > 96 {
			pos := 64 + rapid.IntRange(0, l-96-1).Draw(rt, "padByte")
			out[pos] ^= 1 << uint(rapid.IntRange(0, 7).Draw(rt, "padBit"))
			return out, fmt.Sprintf("flip a padding bit at offset %d of %d", pos, l)
		}
		out[0] ^= 1
		return out, "flip bit 0 (no padding present)"
	case k < 7:
		pos := rapid.IntRange(0, l-1).Draw(rt, "insertAt")
		b := byte(rapid.IntRange(0, 255).Draw(rt, "insertByte"))
		out = append(out[:pos:pos], append([]byte{b}, resp[pos:]...)...)
		return out, fmt.Sprintf("insert byte at offset %d of %d", pos, l)
	case k < 8:
		pos := rapid.IntRange(0, l-1).Draw(rt, "deleteAt")
		out = append(out[:pos:pos], resp[pos+1:]...)
		return out, fmt.Sprintf("delete byte at offset %d of %d", pos, l)
	case k < 9:
		cut := rapid.IntRange(0, l-1).Draw(rt, "truncateAt")
		return out[:cut], fmt.Sprintf("truncate response at %d of %d", cut, l)
	default:
		return append([]byte(nil), other...), "substitute the genuine response of another connection"
	}
}

// vfReleaseResponse releases a server response of respLen bytes (followed by
// whatever else is pending) with cuts drawn relative to its fields
// Y'(32) | AUTH(32) | padding | M_S(16) | MAC_S(16): inside MAC_S, inside the
// mark, at the key / AUTH boundaries, inside the seed frame that follows - and
// then the rest in generic chunk plans.
func vfReleaseResponse(rt *rapid.T, n *wire.Net, s wire.Side, respLen int, label string, wait ...wire.Side) error {
	if respLen >= 96 && n.Pending(s) >= respLen && rapid.IntRange(0, 9).Draw(rt, label+"Structured") < 7 {
		var cut int
		switch rapid.IntRange(0, 6).Draw(rt, label+"Field") {
		case 0, 1:
			cut = respLen - rapid.IntRange(0, 16).Draw(rt, label+"InMAC")
		case 2:
			cut = respLen - 16 - rapid.IntRange(1, 16).Draw(rt, label+"InMark")
		case 3:
			cut = 32 + rapid.IntRange(-1, 1).Draw(rt, label+"AtKey")
		case 4:
			cut = 64 + rapid.IntRange(-1, 1).Draw(rt, label+"AtAuth")
		case 5:
			cut = respLen + rapid.IntRange(1, 45).Draw(rt, label+"InSeedFrame")
		default:
			cut = rapid.IntRange(1, respLen).Draw(rt, label+"Anywhere")
		}
		if cut > n.Pending(s) {
			cut = n.Pending(s)
		}
		n.Release(s, cut)
		if err := n.WaitQuiescent(wait...); err != nil {
			return err
		}
		if more := rapid.IntRange(0, 20).Draw(rt, label+"ThenFew"); more > 0 && n.Pending(s) > 0 {
			if more > n.Pending(s) {
				more = n.Pending(s)
			}
			n.Release(s, more)
			if err := n.WaitQuiescent(wait...); err != nil {
				return err
			}
		}
	}
	return vfReleaseChunks(rt, n, s, label, wait...)
}

// vfRejectingKeySeeds returns n 32-byte strings which, handed to ntor.NewKeypair
// by the CSPRNG, give key candidates without an Elligator representative.
var (
	vfRejOnceK sync.Once
	vfRejK     [][]byte
)

func vfRejectingKeySeeds(n int) [][]byte {
	vfRejOnceK.Do(func() {
		for j := uint64(0); len(vfRejK) < 64; j++ {
			s := detrand.Bytes(0xc0200000000+j, 32)
			digest := sha512.Sum512(s)
			var priv, pub, repr [32]byte
			copy(priv[:], digest[:32])
			if !x25519ell2.ScalarBaseMult(&pub, &repr, &priv, digest[63]) {
				vfRejK = append(vfRejK, s)
			}
		}
	})
	return vfRejK[:n]
}

func vfC02Case(rt *rapid.T, c *ev.Collector) {
	rk := rapid.Uint64().Draw(rt, "randKey")
	defer vfRandSeedKey(rk)()
	br, _ := vfGenBridge(rt, []int{0, 0, 0, 1})
	ent := vfEnt(rapid.Uint64().Draw(rt, "refEntropy"))
	legacy := rapid.Bool().Draw(rt, "legacyBridgeLine")
	scenario := rapid.SampledFrom([]string{"genuine", "wrong-nodeid-bit", "wrong-pubkey-bit", "impostor", "tamper", "tamper", "retry-after-failure", "interleaved-handshakes", "genuine-skewed-clock", "genuine-unlucky-rng"}).Draw(rt, "scenario")
	endByDeadline := rapid.Bool().Draw(rt, "endByDeadline")
	var desc string
	segments := 1

	seenX := map[string]bool{}
	seenY := map[string]bool{}

	switch scenario {
	case "genuine":
		// two sequential connections through one factory pair: both must work and
		// use fresh ephemeral keys
		sf, err := vfServerFactory(br)
		if err != nil {
			rt.Fatalf("VIOL[c02-serverfactory]: %v", err)
		}
		conns := rapid.IntRange(1, 3).Draw(rt, "connections")
		for i := 0; i < conns; i++ {
			cf, cargs, err := vfClientArgs(br, legacy, br.IAT)
			if err != nil {
				rt.Fatalf("VIOL[c02-parseargs]: %v", err)
			}
			n := wire.New()
			defer n.Shutdown()
			sv := drive.Start(n, wire.B, func() (net.Conn, error) { return sf.WrapConn(n.Conn(wire.B)) })
			if err := n.WaitQuiescent(wire.B); err != nil {
				rt.Fatalf("VIOL[c02-wedge]: %v", err)
			}
			cl := drive.Start(n, wire.A, func() (net.Conn, error) { return cf.Dial("tcp", "192.0.2.1:1", vfDialFn(n.Conn(wire.A)), cargs) })
			if err := n.WaitQuiescent(wire.A, wire.B); err != nil {
				rt.Fatalf("VIOL[c02-wedge]: %v", err)
			}
			x := string(n.PendingBytes(wire.A)[:32])
			if seenX[x] {
				rt.Fatalf("VIOL[c02-ephemeral-key-reused]: two client connections sent the same ephemeral key representative %x", x)
			}
			seenX[x] = true
			if err := vfReleaseChunks(rt, n, wire.A, "c2s", wire.A, wire.B); err != nil {
				rt.Fatalf("VIOL[c02-wedge]: %v", err)
			}
			if n.Pending(wire.B) < 96 {
				rt.Fatalf("VIOL[c02-genuine-failed]: server did not answer a genuine client (done=%v err=%v)", sv.SetupDone(), sv.SetupErr())
			}
			y := string(n.PendingBytes(wire.B)[:32])
			if seenY[y] {
				rt.Fatalf("VIOL[c02-ephemeral-key-reused]: two server connections sent the same ephemeral key representative %x", y)
			}
			seenY[y] = true
			respLen := n.Pending(wire.B) - refobfs4.SeedFrameLen
			// a server that speaks first: payload queued right behind response and
			// seed frame, so that the client may hold far more than one maximum
			// handshake when it finds the mark
			early := 0
			if sv.Conn() != nil && rapid.IntRange(0, 2).Draw(rt, "serverSpeaksFirst") == 0 {
				early = rapid.SampledFrom([]int{1, 1000, 8192, 12000, 16384}).Draw(rt, "earlyLen")
				if r, _, _ := sv.Write(vfCounterStream(1, 0, early)); r.Failed() || r.Err != nil {
					rt.Fatalf("VIOL[c02-genuine-failed]: early server write: %s", r)
				}
				if rapid.Bool().Draw(rt, "shortFirstRead") {
					// first read short (mark not in it), everything else in one segment
					n.Release(wire.B, rapid.SampledFrom([]int{1, 32, 64, 96}).Draw(rt, "firstRead"))
					if err := n.WaitQuiescent(wire.A, wire.B); err != nil {
						rt.Fatalf("VIOL[c02-wedge]: %v", err)
					}
					n.ReleaseAll(wire.B)
					if err := n.WaitQuiescent(wire.A, wire.B); err != nil {
						rt.Fatalf("VIOL[c02-wedge]: %v", err)
					}
				}
			}
			if err := vfReleaseResponse(rt, n, wire.B, respLen, "s2c", wire.A, wire.B); err != nil {
				rt.Fatalf("VIOL[c02-wedge]: %v", err)
			}
			for name, ep := range map[string]*drive.Endpoint{"client": cl, "server": sv} {
				if msg := vfEndpointFailure(name, ep); msg != "" {
					rt.Fatalf("%s", msg)
				}
				if !ep.SetupDone() || ep.SetupErr() != nil {
					rt.Fatalf("VIOL[c02-genuine-failed]: %s did not complete a genuine handshake: done=%v err=%v", name, ep.SetupDone(), ep.SetupErr())
				}
			}
			// same session keys: data flows both ways
			m1, m2 := vfCounterStream(0, 0, 700), vfCounterStream(1, early, 1500)
			if r, _, _ := cl.Write(m1); r.Failed() || r.Err != nil {
				rt.Fatalf("VIOL[c02-genuine-failed]: client write: %s", r)
			}
			if r, _, _ := sv.Write(m2); r.Failed() || r.Err != nil {
				rt.Fatalf("VIOL[c02-genuine-failed]: server write: %s", r)
			}
			m2 = vfCounterStream(1, 0, early+1500)
			n.ReleaseAll(wire.A)
			n.ReleaseAll(wire.B)
			if err := n.WaitQuiescent(wire.A, wire.B); err != nil {
				rt.Fatalf("VIOL[c02-wedge]: %v", err)
			}
			if !bytes.Equal(sv.Got(), m1) || !bytes.Equal(cl.Got(), m2) {
				rt.Fatalf("VIOL[c02-session-keys-differ]: data does not flow after a genuine handshake (server got %d/%d, client got %d/%d; read errors %v / %v)", sv.GotLen(), len(m1), cl.GotLen(), len(m2), sv.ReadErr(), cl.ReadErr())
			}
			segments = 3
		}
		desc = fmt.Sprintf("genuine x%d", conns)

	case "genuine-unlucky-rng":
		// The CSPRNG is scripted so that the next 32 key candidates of the client
		// (session key, drawn in ParseArgs) or of the bridge (ephemeral key, drawn
		// when the connection is wrapped) have no Elligator representative - an event
		// of probability 2^-32 per key.  A genuine pair must still complete: giving up
		// after so few candidates would drop genuine connections at a rate a
		// deployment observes.  (A bound beyond 32 candidates is not judged.)
		who := rapid.SampledFrom([]string{"client", "bridge"}).Draw(rt, "unluckySide")
		desc = "genuine, 32 rejected key candidates scripted at the " + who
		rej := vfRejectingKeySeeds(32)
		sf, err := vfServerFactory(br)
		if err != nil {
			rt.Fatalf("VIOL[c02-serverfactory]: %v", err)
		}
		if who == "client" {
			detrand.Script(rej)
		}
		cf, cargs, err := vfClientArgs(br, legacy, br.IAT)
		detrand.ClearForced()
		if err != nil {
			rt.Fatalf("VIOL[c02-genuine-failed]: ParseArgs of a genuine bridge line failed after 32 unlucky key candidates: %v", err)
		}
		n := wire.New()
		defer n.Shutdown()
		if who == "bridge" {
			detrand.Script(rej)
		}
		sv := drive.Start(n, wire.B, func() (net.Conn, error) { return sf.WrapConn(n.Conn(wire.B)) })
		if err := n.WaitQuiescent(wire.B); err != nil {
			rt.Fatalf("VIOL[c02-wedge]: %v", err)
		}
		cl := drive.Start(n, wire.A, func() (net.Conn, error) { return cf.Dial("tcp", "192.0.2.1:1", vfDialFn(n.Conn(wire.A)), cargs) })
		if err := n.WaitQuiescent(wire.A, wire.B); err != nil {
			rt.Fatalf("VIOL[c02-wedge]: %v", err)
		}
		n.ReleaseAll(wire.A)
		if err := n.WaitQuiescent(wire.A, wire.B); err != nil {
			rt.Fatalf("VIOL[c02-wedge]: %v", err)
		}
		detrand.ClearForced()
		n.ReleaseAll(wire.B)
		if err := n.WaitQuiescent(wire.A, wire.B); err != nil {
			rt.Fatalf("VIOL[c02-wedge]: %v", err)
		}
		for name, ep := range map[string]*drive.Endpoint{"client": cl, "server": sv} {
			if msg := vfEndpointFailure(name, ep); msg != "" {
				rt.Fatalf("%s", msg)
			}
			if !ep.SetupDone() || ep.SetupErr() != nil {
				rt.Fatalf("VIOL[c02-genuine-failed]: %s did not complete a genuine handshake when the %s's generator produced 32 key candidates without a representative in a row: done=%v err=%v", name, who, ep.SetupDone(), ep.SetupErr())
			}
		}
		m1, m2 := vfCounterStream(0, 0, 300), vfCounterStream(1, 0, 500)
		if r, _, _ := cl.Write(m1); r.Failed() || r.Err != nil {
			rt.Fatalf("VIOL[c02-genuine-failed]: client write: %s", r)
		}
		if r, _, _ := sv.Write(m2); r.Failed() || r.Err != nil {
			rt.Fatalf("VIOL[c02-genuine-failed]: server write: %s", r)
		}
		n.ReleaseAll(wire.A)
		n.ReleaseAll(wire.B)
		if err := n.WaitQuiescent(wire.A, wire.B); err != nil {
			rt.Fatalf("VIOL[c02-wedge]: %v", err)
		}
		if !bytes.Equal(sv.Got(), m1) || !bytes.Equal(cl.Got(), m2) {
			rt.Fatalf("VIOL[c02-session-keys-differ]: data does not flow after a genuine handshake with unlucky key generation (%s)", desc)
		}
		segments = 3

	case "genuine-skewed-clock":
		// A genuine client whose clock is in the previous / next hour (the
		// reference client, which can be told the hour) against the real bridge:
		// the handshake completes - the reply verifies under the hour the client
		// stamped - and both ends hold the same keys.
		sf, err := vfServerFactory(br)
		if err != nil {
			rt.Fatalf("VIOL[c02-serverfactory]: %v", err)
		}
		off := int64(rapid.SampledFrom([]int{-1, 0, 1}).Draw(rt, "hourOff"))
		desc = fmt.Sprintf("genuine client with hour offset %+d", off)
		n := wire.New()
		defer n.Shutdown()
		sv := drive.Start(n, wire.B, func() (net.Conn, error) { return sf.WrapConn(n.Conn(wire.B)) })
		if err := n.WaitQuiescent(wire.B); err != nil {
			rt.Fatalf("VIOL[c02-wedge]: %v", err)
		}
		hour0 := vfHourNow()
		cl := &refobfs4.Client{ID: refobfs4.Identity{Pub: br.ID.Pub, NodeID: br.ID.NodeID}, Key: refobfs4.NewEKey(ent),
			Pad: ent(refobfs4.ClientMinPad + rapid.IntRange(0, 400).Draw(rt, "clientPad")), Hour: hour0 + off}
		n.Inject(wire.A, cl.Handshake())
		if err := vfReleaseChunks(rt, n, wire.A, "c2s", wire.B); err != nil {
			rt.Fatalf("VIOL[c02-wedge]: %v", err)
		}
		if vfHourNow() != hour0 {
			rt.Skip("hour changed during the case")
		}
		if msg := vfEndpointFailure("server", sv); msg != "" {
			rt.Fatalf("%s", msg)
		}
		if !sv.SetupDone() || sv.SetupErr() != nil {
			rt.Fatalf("VIOL[c02-genuine-failed]: bridge did not accept a genuine client whose clock is %+d h off: done=%v err=%v", off, sv.SetupDone(), sv.SetupErr())
		}
		resp := n.Take(wire.B)
		sh, err := cl.ParseResponse(resp)
		if err != nil {
			rt.Fatalf("VIOL[c02-genuine-failed]: the genuine bridge's response does not verify at a client whose clock is %+d h off (hour %d): %v", off, cl.Hour, err)
		}
		c2s, s2c := refobfs4.Keys(sh.KeySeed)
		enc, dec := refobfs4.NewEncoder(c2s), refobfs4.NewDecoder(s2c)
		dec.Feed(resp[sh.Len:])
		if _, err := dec.All(); err != nil {
			rt.Fatalf("VIOL[c02-session-keys-differ]: the seed frame behind the response does not open: %v", err)
		}
		m1, m2 := vfCounterStream(0, 0, 500), vfCounterStream(1, 0, 900)
		n.Inject(wire.A, enc.Frame(refobfs4.PktPayload, m1, 0))
		n.ReleaseAll(wire.A)
		if r, _, _ := sv.Write(m2); r.Failed() || r.Err != nil {
			rt.Fatalf("VIOL[c02-genuine-failed]: server write: %s", r)
		}
		if err := n.WaitQuiescent(wire.B); err != nil {
			rt.Fatalf("VIOL[c02-wedge]: %v", err)
		}
		dec.Feed(n.Take(wire.B))
		frames, err := dec.All()
		var got2 []byte
		for _, f := range frames {
			got2 = append(got2, f.Payload...)
		}
		if err != nil || !bytes.Equal(sv.Got(), m1) || !bytes.Equal(got2, m2) {
			rt.Fatalf("VIOL[c02-session-keys-differ]: data does not flow after a genuine handshake with hour offset %+d (server got %d/%d, client got %d/%d, decode error %v)", off, sv.GotLen(), len(m1), len(got2), len(m2), err)
		}
		segments = 3

	case "interleaved-handshakes":
		// Several connections of one process (one client factory, one server
		// factory) whose handshakes interleave in a generated, harness-owned order:
		// connection 1 is parked with its handshake (client) or its response
		// (server) held at the transport - blocked before the wire looks at the
		// bytes, as on a full socket buffer - while other connections handshake from
		// start to end.  Every one of them must complete with matching keys.
		sf, err := vfServerFactory(br)
		if err != nil {
			rt.Fatalf("VIOL[c02-serverfactory]: %v", err)
		}
		cf, cargs, err := vfClientArgs(br, legacy, br.IAT)
		if err != nil {
			rt.Fatalf("VIOL[c02-parseargs]: %v", err)
		}
		type conn struct {
			n      *wire.Net
			cl, sv *drive.Endpoint
		}
		open := func() *conn {
			n := wire.New()
			return &conn{n: n}
		}
		startServer := func(k *conn) {
			k.sv = drive.Start(k.n, wire.B, func() (net.Conn, error) { return sf.WrapConn(k.n.Conn(wire.B)) })
		}
		startClient := func(k *conn) {
			k.cl = drive.Start(k.n, wire.A, func() (net.Conn, error) { return cf.Dial("tcp", "192.0.2.1:1", vfDialFn(k.n.Conn(wire.A)), cargs) })
		}
		full := func(k *conn, label string) {
			startServer(k)
			startClient(k)
			if err := k.n.WaitQuiescent(wire.A, wire.B); err != nil {
				rt.Fatalf("VIOL[c02-wedge]: %v", err)
			}
			if err := vfReleaseChunks(rt, k.n, wire.A, label+"c2s", wire.A, wire.B); err != nil {
				rt.Fatalf("VIOL[c02-wedge]: %v", err)
			}
			if err := vfReleaseChunks(rt, k.n, wire.B, label+"s2c", wire.A, wire.B); err != nil {
				rt.Fatalf("VIOL[c02-wedge]: %v", err)
			}
		}
		verify := func(k *conn, name string) {
			for side, ep := range map[string]*drive.Endpoint{"client": k.cl, "server": k.sv} {
				if msg := vfEndpointFailure(side, ep); msg != "" {
					rt.Fatalf("%s", msg)
				}
				if !ep.SetupDone() || ep.SetupErr() != nil {
					rt.Fatalf("VIOL[c02-genuine-failed]: %s of %s did not complete a genuine handshake that was interleaved with other connections' handshakes: done=%v err=%v (%s)", side, name, ep.SetupDone(), ep.SetupErr(), desc)
				}
			}
			m1, m2 := vfCounterStream(0, 0, 300), vfCounterStream(1, 0, 900)
			if r, _, _ := k.cl.Write(m1); r.Failed() || r.Err != nil {
				rt.Fatalf("VIOL[c02-genuine-failed]: client write: %s", r)
			}
			if r, _, _ := k.sv.Write(m2); r.Failed() || r.Err != nil {
				rt.Fatalf("VIOL[c02-genuine-failed]: server write: %s", r)
			}
			k.n.ReleaseAll(wire.A)
			k.n.ReleaseAll(wire.B)
			if err := k.n.WaitQuiescent(wire.A, wire.B); err != nil {
				rt.Fatalf("VIOL[c02-wedge]: %v", err)
			}
			if !bytes.Equal(k.sv.Got(), m1) || !bytes.Equal(k.cl.Got(), m2) {
				rt.Fatalf("VIOL[c02-session-keys-differ]: data does not flow on %s after handshakes interleaved with other connections (server got %d/%d, client got %d/%d; read errors %v / %v; %s)", name, k.sv.GotLen(), len(m1), k.cl.GotLen(), len(m2), k.sv.ReadErr(), k.cl.ReadErr(), desc)
			}
		}
		k1 := open()
		defer k1.n.Shutdown()
		holdClient := rapid.Bool().Draw(rt, "holdClientHandshake")
		holdServer := rapid.Bool().Draw(rt, "holdServerResponse") || !holdClient
		desc = fmt.Sprintf("interleaved: hold client handshake=%v, hold server response=%v", holdClient, holdServer)
		var others []*conn
		startServer(k1)
		if holdClient {
			k1.n.HoldWrites(wire.A, true)
		}
		startClient(k1)
		if holdClient {
			if !k1.n.WaitHeld(wire.A, 10*time.Second) {
				rt.Fatalf("VIOL[c02-wedge]: client did not reach its handshake write")
			}
			for i := rapid.IntRange(1, 2).Draw(rt, "othersWhileClientHeld"); i > 0; i-- {
				o := open()
				defer o.n.Shutdown()
				full(o, fmt.Sprintf("o%d", len(others)))
				others = append(others, o)
			}
			k1.n.HoldWrites(wire.A, false)
		}
		if err := k1.n.WaitQuiescent(wire.A, wire.B); err != nil {
			rt.Fatalf("VIOL[c02-wedge]: %v", err)
		}
		if holdServer {
			k1.n.HoldWrites(wire.B, true)
		}
		if err := vfReleaseChunks(rt, k1.n, wire.A, "k1c2s", wire.A); err != nil {
			rt.Fatalf("VIOL[c02-wedge]: %v", err)
		}
		if holdServer {
			if !k1.n.WaitHeld(wire.B, 10*time.Second) {
				rt.Fatalf("VIOL[c02-genuine-failed]: server did not answer a genuine client (done=%v err=%v; %s)", k1.sv.SetupDone(), k1.sv.SetupErr(), desc)
			}
			for i := rapid.IntRange(1, 2).Draw(rt, "othersWhileServerHeld"); i > 0; i-- {
				o := open()
				defer o.n.Shutdown()
				full(o, fmt.Sprintf("o%d", len(others)))
				others = append(others, o)
			}
			k1.n.HoldWrites(wire.B, false)
		}
		if err := k1.n.WaitQuiescent(wire.A, wire.B); err != nil {
			rt.Fatalf("VIOL[c02-wedge]: %v", err)
		}
		if err := vfReleaseChunks(rt, k1.n, wire.B, "k1s2c", wire.A, wire.B); err != nil {
			rt.Fatalf("VIOL[c02-wedge]: %v", err)
		}
		verify(k1, "the held connection")
		for i, o := range others {
			verify(o, fmt.Sprintf("connection %d made meanwhile", i+2))
		}
		segments = 3

	case "retry-after-failure":
		// One client factory: a first attempt fails part-way (the network fails while
		// the handshake is being written, or the server never answers), then a second
		// connection is made through the same factory.  The second must work and must
		// not reuse the ephemeral key the first one has already put on the wire.
		sf, err := vfServerFactory(br)
		if err != nil {
			rt.Fatalf("VIOL[c02-serverfactory]: %v", err)
		}
		cf, cargs1, err := vfClientArgs(br, legacy, br.IAT)
		if err != nil {
			rt.Fatalf("VIOL[c02-parseargs]: %v", err)
		}
		n1 := wire.New()
		defer n1.Shutdown()
		failKind := rapid.SampledFrom([]string{"write-error", "write-error", "silent-server", "eof"}).Draw(rt, "firstFailure")
		if failKind == "write-error" {
			n1.WriteErrAt(wire.A, int64(rapid.SampledFrom([]int{0, 1, 31, 32, 33, 40, 100, 140, 141}).Draw(rt, "writeFailsAt")), vfErrInjected)
		}
		cl1 := drive.Start(n1, wire.A, func() (net.Conn, error) { return cf.Dial("tcp", "192.0.2.1:1", vfDialFn(n1.Conn(wire.A)), cargs1) })
		if err := n1.WaitQuiescent(wire.A); err != nil {
			rt.Fatalf("VIOL[c02-wedge]: %v", err)
		}
		if !cl1.SetupDone() {
			if failKind == "eof" {
				n1.EOF(wire.B)
			} else if !n1.Fire(wire.A) {
				rt.Fatalf("VIOL[c02-no-deadline]: client is waiting for the handshake without an armed deadline")
			}
			if err := n1.WaitQuiescent(wire.A); err != nil {
				rt.Fatalf("VIOL[c02-wedge]: %v", err)
			}
		}
		if pv, st := cl1.Panic(); pv != nil {
			rt.Fatalf("VIOL[c02-panic]: %v\n%s", pv, st)
		}
		if !cl1.SetupDone() || cl1.SetupErr() == nil {
			rt.Fatalf("VIOL[c02-handshake-completed]: first attempt (%s) did not fail: done=%v err=%v", failKind, cl1.SetupDone(), cl1.SetupErr())
		}
		x1 := n1.Head(wire.A)
		// second connection through the same factory (new ParseArgs, as obfs4proxy does per connection)
		other := rapid.Bool().Draw(rt, "secondUsesLegacyLine")
		args2 := &pt.Args{}
		if other {
			args2.Add(nodeIDArg, hex.EncodeToString(br.ID.NodeID))
			args2.Add(publicKeyArg, hex.EncodeToString(br.ID.Pub))
		} else {
			args2.Add(certArg, (&obfs4ServerCert{raw: append(append([]byte(nil), br.ID.NodeID...), br.ID.Pub...)}).String())
		}
		args2.Add(iatArg, strconv.Itoa(br.IAT))
		cargs2, err := cf.ParseArgs(args2)
		if err != nil {
			rt.Fatalf("VIOL[c02-parseargs]: %v", err)
		}
		n2 := wire.New()
		defer n2.Shutdown()
		sv := drive.Start(n2, wire.B, func() (net.Conn, error) { return sf.WrapConn(n2.Conn(wire.B)) })
		if err := n2.WaitQuiescent(wire.B); err != nil {
			rt.Fatalf("VIOL[c02-wedge]: %v", err)
		}
		cl2 := drive.Start(n2, wire.A, func() (net.Conn, error) { return cf.Dial("tcp", "192.0.2.1:1", vfDialFn(n2.Conn(wire.A)), cargs2) })
		if err := n2.WaitQuiescent(wire.A, wire.B); err != nil {
			rt.Fatalf("VIOL[c02-wedge]: %v", err)
		}
		x2 := n2.Head(wire.A)
		if len(x1) >= 32 && len(x2) >= 32 && bytes.Equal(x1[:32], x2[:32]) {
			rt.Fatalf("VIOL[c02-ephemeral-key-reused]: a connection made after a failed attempt (%s) sends the ephemeral key representative %x that the failed attempt had already put on the wire", failKind, x1[:32])
		}
		n2.ReleaseAll(wire.A)
		if err := n2.WaitQuiescent(wire.A, wire.B); err != nil {
			rt.Fatalf("VIOL[c02-wedge]: %v", err)
		}
		n2.ReleaseAll(wire.B)
		if err := n2.WaitQuiescent(wire.A, wire.B); err != nil {
			rt.Fatalf("VIOL[c02-wedge]: %v", err)
		}
		if !cl2.SetupDone() || cl2.SetupErr() != nil || !sv.SetupDone() || sv.SetupErr() != nil {
			rt.Fatalf("VIOL[c02-genuine-failed]: the connection after a failed attempt (%s) did not complete: client done=%v err=%v, server done=%v err=%v", failKind, cl2.SetupDone(), cl2.SetupErr(), sv.SetupDone(), sv.SetupErr())
		}
		desc = fmt.Sprintf("retry after %s (%d bytes of the first handshake were sent)", failKind, len(x1))

	case "wrong-nodeid-bit", "wrong-pubkey-bit":
		sf, err := vfServerFactory(br)
		if err != nil {
			rt.Fatalf("VIOL[c02-serverfactory]: %v", err)
		}
		wrong := br
		wrong.ID = refobfs4.Identity{Pub: append([]byte(nil), br.ID.Pub...), NodeID: append([]byte(nil), br.ID.NodeID...)}
		if scenario == "wrong-nodeid-bit" {
			bit := rapid.IntRange(0, 159).Draw(rt, "bit")
			wrong.ID.NodeID[bit/8] ^= 1 << uint(bit%8)
			desc = fmt.Sprintf("client bridge line with node-id bit %d flipped", bit)
		} else {
			bit := rapid.IntRange(0, 255).Draw(rt, "bit")
			wrong.ID.Pub[bit/8] ^= 1 << uint(bit%8)
			desc = fmt.Sprintf("client bridge line with public-key bit %d flipped", bit)
		}
		cf, cargs, err := vfClientArgs(wrong, legacy, br.IAT)
		if err != nil {
			rt.Fatalf("VIOL[c02-parseargs]: %v", err)
		}
		n := wire.New()
		defer n.Shutdown()
		sv := drive.Start(n, wire.B, func() (net.Conn, error) { return sf.WrapConn(n.Conn(wire.B)) })
		if err := n.WaitQuiescent(wire.B); err != nil {
			rt.Fatalf("VIOL[c02-wedge]: %v", err)
		}
		cl := drive.Start(n, wire.A, func() (net.Conn, error) { return cf.Dial("tcp", "192.0.2.1:1", vfDialFn(n.Conn(wire.A)), cargs) })
		if err := n.WaitQuiescent(wire.A, wire.B); err != nil {
			rt.Fatalf("VIOL[c02-wedge]: %v", err)
		}
		if err := vfReleaseChunks(rt, n, wire.A, "c2s", wire.A, wire.B); err != nil {
			rt.Fatalf("VIOL[c02-wedge]: %v", err)
		}
		if n.Written(wire.B) != 0 || (sv.SetupDone() && sv.SetupErr() == nil) {
			rt.Fatalf("VIOL[c02-server-accepted-wrong-identity]: server answered a client configured with a different identity (%s)", desc)
		}
		if msg := vfClientMustFail(n, cl, endByDeadline, desc); msg != "" {
			rt.Fatalf("%s", msg)
		}

	case "impostor":
		cf, cargs, err := vfClientArgs(br, legacy, br.IAT)
		if err != nil {
			rt.Fatalf("VIOL[c02-parseargs]: %v", err)
		}
		n := wire.New()
		defer n.Shutdown()
		cl := drive.Start(n, wire.A, func() (net.Conn, error) { return cf.Dial("tcp", "192.0.2.1:1", vfDialFn(n.Conn(wire.A)), cargs) })
		if err := n.WaitQuiescent(wire.A); err != nil {
			rt.Fatalf("VIOL[c02-wedge]: %v", err)
		}
		hs := n.Take(wire.A)
		// the impostor knows the whole public bridge line, but has its own private key
		imp := refobfs4.NewIdentity(ent(52))
		fake := refobfs4.Identity{Priv: imp.Priv, Pub: br.ID.Pub, NodeID: br.ID.NodeID}
		sv := &refobfs4.Server{ID: fake, Key: refobfs4.NewEKey(ent), Pad: ent(rapid.IntRange(0, 2000).Draw(rt, "impostorPad"))}
		if err := sv.ParseClient(hs, vfHourNow()); err != nil {
			rt.Skip("hour changed or client handshake not parseable: " + err.Error())
		}
		variant := rapid.SampledFrom([]string{"auth-from-own-key", "random-auth", "auth-of-another-handshake", "genuine-auth-other-Y", "low-order-Y", "low-order-Y-zero-auth", "low-order-Y-auth-for-zero-secrets", "auth-without-identity-key"}).Draw(rt, "impostorVariant")
		switch variant {
		case "random-auth":
			sv.Auth = ent(32)
		case "auth-of-another-handshake":
			// a genuine AUTH (made with the real private key) for a different client key
			real := &refobfs4.Server{ID: br.ID, Key: sv.Key}
			other := &refobfs4.Client{ID: refobfs4.Identity{Pub: br.ID.Pub, NodeID: br.ID.NodeID}, Key: refobfs4.NewEKey(ent), Pad: ent(100), Hour: sv.ClientHour}
			if err := real.ParseClient(other.Handshake(), sv.ClientHour); err != nil {
				rt.Fatalf("INFRA: reference handshake failed: %v", err)
			}
			sv.Auth = real.Auth
		case "genuine-auth-other-Y":
			// AUTH made with the real private key for this client, but sent with another Y'
			real := &refobfs4.Server{ID: br.ID, Key: sv.Key}
			if err := real.ParseClient(hs, sv.ClientHour); err != nil {
				rt.Fatalf("INFRA: reference handshake failed: %v", err)
			}
			sv.Auth = real.Auth
			sv.Key = refobfs4.NewEKey(ent)
		case "auth-without-identity-key":
			// everything an attacker can compute: EXP(X,y) used in both places
			x := refobfs4.ReprToPublic(sv.ClientRepr)
			e := refntor.X25519(sv.Key.Priv, x, false)
			f := refntor.Forge(e, e, br.ID.NodeID, br.ID.Pub, x, sv.Key.Pub)
			sv.Auth, sv.KeySeed = f.Auth, f.KeySeed
		case "low-order-Y", "low-order-Y-zero-auth", "low-order-Y-auth-for-zero-secrets":
			// Y' decodes to a low-order point, so EXP(Y,x) is all-zero whatever x is
			reprs := vfLowOrderReprs()
			r := append([]byte(nil), reprs[rapid.IntRange(0, len(reprs)-1).Draw(rt, "lowRepr")]...)
			r[31] |= byte(rapid.IntRange(0, 3).Draw(rt, "lowTop")) << 6
			sv.Key = refobfs4.EKey{Repr: r, Pub: refobfs4.ReprToPublic(r)}
			zero := make([]byte, 32)
			switch variant {
			case "low-order-Y":
				sv.Auth = ent(32)
			case "low-order-Y-zero-auth":
				// what a client that blanks its outputs on failure would compare with
				sv.Auth = zero
				sv.KeySeed = zero
			default:
				// the transcript hashes for all-zero Diffie-Hellman results are public knowledge
				x := refobfs4.ReprToPublic(sv.ClientRepr)
				f := refntor.Forge(zero, zero, br.ID.NodeID, br.ID.Pub, x, sv.Key.Pub)
				sv.Auth, sv.KeySeed = f.Auth, f.KeySeed
			}
		}
		desc = "impostor: " + variant
		_, s2c := refobfs4.Keys(sv.KeySeed)
		enc := refobfs4.NewEncoder(s2c)
		out := append(sv.Response(), enc.Frame(refobfs4.PktSeed, ent(24), 0)...)
		out = append(out, enc.Frame(refobfs4.PktPayload, []byte("attacker data"), 0)...)
		n.Inject(wire.B, out)
		if err := vfReleaseResponse(rt, n, wire.B, len(sv.Response()), "s2c", wire.A); err != nil {
			rt.Fatalf("VIOL[c02-wedge]: %v", err)
		}
		if msg := vfClientMustFail(n, cl, endByDeadline, desc); msg != "" {
			rt.Fatalf("%s", msg)
		}

	case "tamper":
		// another connection's genuine response, for the substitution variant
		p0, err := vfStartPair(br, legacy, br.IAT)
		if p0 != nil && p0.N != nil {
			defer p0.N.Shutdown()
		}
		if err != nil {
			rt.Fatalf("VIOL[c02-wedge]: %v", err)
		}
		p0.N.ReleaseAll(wire.A)
		if err := p0.N.WaitQuiescent(wire.A, wire.B); err != nil {
			rt.Fatalf("VIOL[c02-wedge]: %v", err)
		}
		other := p0.N.PendingBytes(wire.B)
		vfDrawSteer(rt)
		p, err := vfStartPair(br, legacy, br.IAT)
		if p != nil && p.N != nil {
			defer p.N.Shutdown()
		}
		if err != nil {
			rt.Fatalf("VIOL[c02-wedge]: %v", err)
		}
		p.N.ReleaseAll(wire.A)
		if err := p.N.WaitQuiescent(wire.A, wire.B); err != nil {
			rt.Fatalf("VIOL[c02-wedge]: %v", err)
		}
		resp := p.N.PendingBytes(wire.B)
		if len(resp) < 96+refobfs4.SeedFrameLen || len(other) < 96+refobfs4.SeedFrameLen {
			rt.Fatalf("VIOL[c02-genuine-failed]: server did not answer a genuine client (done=%v err=%v)", p.Sv.SetupDone(), p.Sv.SetupErr())
		}
		if bytes.Equal(resp[:32], other[:32]) {
			rt.Fatalf("VIOL[c02-ephemeral-key-reused]: two server connections sent the same ephemeral key representative %x", resp[:32])
		}
		mod, what := vfTamper(rt, resp, other, refobfs4.Identity{Pub: br.ID.Pub, NodeID: br.ID.NodeID})
		desc = "tamper: " + what
		if rl := len(resp) - refobfs4.SeedFrameLen; len(mod) >= rl && bytes.Equal(mod[:rl], resp[:rl]) {
			// e.g. a byte inserted in front of an equal byte: the response proper is
			// unchanged, only what follows it is shifted - not a modification of the response
			rt.Skip("modification left the response itself unchanged")
		}
		// the server also sends data right away: none of it may surface
		if r, _, _ := p.Sv.Write(vfCounterStream(1, 0, 300)); r.Failed() {
			rt.Fatalf("VIOL[c02-panic]: server write: %s", r)
		}
		tail := p.N.PendingBytes(wire.B)[len(resp):]
		p.N.SetPending(wire.B, append(mod, tail...))
		if err := vfReleaseResponse(rt, p.N, wire.B, len(mod)-refobfs4.SeedFrameLen, "s2c", wire.A); err != nil {
			rt.Fatalf("VIOL[c02-wedge]: %v", err)
		}
		if msg := vfClientMustFail(p.N, p.Cl, endByDeadline, desc); msg != "" {
			rt.Fatalf("%s", msg)
		}
	}
	nt := scenario != "genuine" || segments >= 3
	c.Case(ev.Hash(scenario, desc, rk), nt, []string{"scenario-" + scenario}, func() any {
		return map[string]any{"scenario": scenario, "detail": desc, "legacy_bridge_line": legacy, "ended_by_deadline": endByDeadline}
	})
}

func TestVerifC02Scenarios(t *testing.T) {
	vfSetup(t)
	c := ev.For("C02")
	c.Rule("scenarios: generated identity, node ID, seed, bridge-line form and chunk plans; scenario in {retry-after-failure (one client factory: a first attempt fails because the network fails while the handshake is written / the server stays silent / EOF, then a second connection through the same factory must complete and must not reuse the representative already sent), genuine (1-3 sequential connections, echo both ways, all ephemeral representatives distinct; in a third of them the server speaks first with up to 16384 bytes queued behind response and seed frame, optionally after a short first read), genuine-unlucky-rng (the CSPRNG scripted so that the next 32 key candidates of the client or of the bridge have no Elligator representative; the genuine pair must still complete), genuine-skewed-clock (the reference client stamped with the previous / current / next hour against the real bridge: the reply must verify under the client's hour and data must flow), interleaved-handshakes (one client and one server factory; connection 1 parked with its handshake and/or its response held at the transport while 1-4 other connections handshake from start to end; all must complete with matching keys), one bit of the client's node ID / public key flipped (real server), impostor = reference server that knows the public bridge line only (AUTH from its own key, random AUTH, AUTH of another handshake, genuine AUTH with another Y', low-order Y'), tamper = modification of a genuine response in flight (blind: one bit of Y'|AUTH|M_S|MAC_S, a padding bit, insert / delete one byte, truncate, substitute another connection's response; informed: one bit of Y'|AUTH with mark and MAC recomputed from the public bridge line) with server payload queued behind it}; every server response is released with cuts drawn relative to its fields (inside MAC_S, inside the mark, at the Y' / AUTH boundaries, inside the seed frame behind it) before generic chunk plans; oracle: genuine => Dial/WrapConn succeed and data flows; otherwise, after the exchange ends by EOF or the fired client deadline, Dial has returned an error and zero application bytes surfaced; non-trivial = any non-genuine scenario or a genuine one delivered in >= 3 segments; fingerprint = scenario + parameters")
	c.Assume("cryptographic strength (HMAC, X25519, SHA-256) is assumed; what is tested is that every check is wired in and bound to the right inputs")
	for _, s := range []string{"genuine", "wrong-nodeid-bit", "wrong-pubkey-bit", "impostor", "tamper", "retry-after-failure"} {
		c.Floor("scenario-"+s, 0.05)
	}
	rapid.Check(t, func(rt *rapid.T) { vfC02Case(rt, c) })
	vfTamperMu.Lock()
	c.Set("tamper_field_bits_covered_of_768", len(vfTamperBits))
	vfTamperMu.Unlock()
}

// TestVerifC02TamperEnum flips every one of the 768 bits of Y'|AUTH|M_S|MAC_S of a
// genuine response (sharded), one connection per bit.
func TestVerifC02TamperEnum(t *testing.T) {
	vfSetup(t)
	c := ev.For("C02")
	c.Rule("tamper-enum: every single bit of the 96 fixed response bytes (Y', AUTH, M_S, MAC_S) flipped in a genuine response, one fresh connection per bit, response released whole; oracle as above")
	shard, nshards := ev.IntEnv("VERIF_SHARD", 0), ev.IntEnv("VERIF_NSHARDS", 1)
	stride := 1
	if !ev.Thorough() {
		stride = 12 // quick: 64 of the 768 positions, offset by the seed
	}
	start := ev.IntEnv("VERIF_SEED", 1) % stride
	br := vfBridge{ID: refobfs4.NewIdentity(vfEnt(99)(52)), Seed: vfEnt(98)(24)}
	count := int64(0)
	for bit := start; bit < 768; bit += stride {
		if (bit/stride)%nshards != shard {
			continue
		}
		p, err := vfStartPair(br, bit%2 == 0, 0)
		if err != nil {
			t.Fatalf("VIOL[c02-wedge]: %v", err)
		}
		p.N.ReleaseAll(wire.A)
		if err := p.N.WaitQuiescent(wire.A, wire.B); err != nil {
			t.Fatalf("VIOL[c02-wedge]: %v", err)
		}
		resp := p.N.PendingBytes(wire.B)
		if len(resp) < 96+refobfs4.SeedFrameLen {
			t.Fatalf("VIOL[c02-genuine-failed]: no response")
		}
		l := len(resp) - refobfs4.SeedFrameLen
		off := bit / 8
		if off >= 64 {
			off = l - 32 + (off - 64)
		}
		resp[off] ^= 1 << uint(bit%8)
		p.N.SetPending(wire.B, resp)
		p.N.ReleaseAll(wire.B)
		what := fmt.Sprintf("flip bit %d of Y'|AUTH|M_S|MAC_S", bit)
		if msg := vfClientMustFail(p.N, p.Cl, bit%3 == 0, what); msg != "" {
			fmt.Printf("VERIF-REPLAY-CASE: {\"bit\": %d}\n", bit)
			p.N.Shutdown()
			t.Fatalf("%s", msg)
		}
		p.N.Shutdown()
		count++
	}
	c.Bulk(count, count)
	c.Class("tamper-enum-bits", count)
	if ev.Thorough() {
		c.Subspace("single-bit flips of the 96 fixed response bytes", count)
	}
	c.Sample(ev.Hash("tamper-enum", start, shard), map[string]any{"enumerated_bits": count, "first_bit": start, "stride": stride})
}

// TestVerifC02Concurrent: many clients handshake against one factory at once.
func TestVerifC02Concurrent(t *testing.T) {
	vfSetup(t)
	c := ev.For("C02")
	c.Rule("concurrent: 8-32 real clients handshake simultaneously against one real server factory over free-running wires, then echo data; oracle: all complete, data intact, all ephemeral representatives pairwise distinct (thorough: under -race)")
	rapid.Check(t, func(rt *rapid.T) {
		br, _ := vfGenBridge(rt, []int{0})
		k := rapid.IntRange(8, 32).Draw(rt, "clients")
		wseed := rapid.Uint64().Draw(rt, "wireSeed")
		sf, err := vfServerFactory(br)
		if err != nil {
			rt.Fatalf("VIOL[c02-serverfactory]: %v", err)
		}
		var mu sync.Mutex
		reprs := map[string]int{}
		var failures []string
		var wg sync.WaitGroup
		// all arguments first: parsing sets the process-wide bias flag, which the
		// connections started below read
		cfs := make([]base.ClientFactory, k)
		cas := make([]interface{}, k)
		for i := 0; i < k; i++ {
			cf, cargs, err := vfClientArgs(br, i%2 == 0, 0)
			if err != nil {
				rt.Fatalf("VIOL[c02-parseargs]: %v", err)
			}
			cfs[i], cas[i] = cf, cargs
		}
		for i := 0; i < k; i++ {
			i := i
			cf, cargs := cfs[i], cas[i]
			n := wire.NewFree(wseed + uint64(i))
			defer n.Shutdown()
			wg.Add(1)
			go func() {
				defer wg.Done()
				var sc, cc net.Conn
				var wg2 sync.WaitGroup
				var serr, cerr error
				wg2.Add(2)
				go func() {
					defer wg2.Done()
					r := drive.Call(30*time.Second, func() error { var e error; sc, e = sf.WrapConn(n.Conn(wire.B)); return e })
					if r.Failed() {
						serr = fmt.Errorf("%s", r)
					} else {
						serr = r.Err
					}
				}()
				go func() {
					defer wg2.Done()
					r := drive.Call(30*time.Second, func() error {
						var e error
						cc, e = cf.Dial("tcp", "192.0.2.1:1", vfDialFn(n.Conn(wire.A)), cargs)
						return e
					})
					if r.Failed() {
						cerr = fmt.Errorf("%s", r)
					} else {
						cerr = r.Err
					}
				}()
				wg2.Wait()
				if serr != nil || cerr != nil {
					mu.Lock()
					failures = append(failures, fmt.Sprintf("client %d: handshake failed: client %v server %v", i, cerr, serr))
					mu.Unlock()
					return
				}
				msg := vfCounterStream(byte(i), 0, 2000)
				r := drive.Call(30*time.Second, func() error {
					if _, e := cc.Write(msg); e != nil {
						return e
					}
					buf := make([]byte, len(msg))
					got := 0
					for got < len(msg) {
						kk, e := sc.Read(buf[got:])
						got += kk
						if e != nil {
							return e
						}
					}
					if !bytes.Equal(buf, msg) {
						return fmt.Errorf("data differs")
					}
					return nil
				})
				if r.Failed() || r.Err != nil {
					mu.Lock()
					failures = append(failures, fmt.Sprintf("client %d: echo failed: %s", i, r))
					mu.Unlock()
				}
				mu.Lock()
				for _, sd := range []wire.Side{wire.A, wire.B} {
					if h := n.Head(sd); len(h) >= 32 {
						reprs[sd.String()+string(h[:32])]++
					}
				}
				mu.Unlock()
			}()
		}
		wg.Wait()
		if len(failures) > 0 {
			rt.Fatalf("VIOL[c02-concurrent-failed]: %v", failures)
		}
		for rp, cnt := range reprs {
			if cnt > 1 {
				rt.Fatalf("VIOL[c02-ephemeral-key-reused]: %d concurrent connections sent the same ephemeral representative %x (side %s)", cnt, rp[1:], rp[:1])
			}
		}
		if len(reprs) != 2*k {
			rt.Fatalf("VIOL[c02-concurrent-failed]: expected %d handshake representatives, saw %d", 2*k, len(reprs))
		}
		c.Case(ev.Hash("concurrent", k, wseed, br.Seed), true, []string{"concurrent"}, func() any { return map[string]any{"scenario": "concurrent", "clients": k} })
	})
}
