//go:build verif

package obfs4

// C01 — obfs4 delivers the exact byte stream, both ways, under any
// segmentation.  Driver A: lock-step rapid state machine over real client and
// real server on the gated wire.  Driver B: free-running, four goroutines.

import (
	"encoding/json"
	"bytes"
	"fmt"
	"net"
	"reflect"
	"strings"
	"sync"
	"testing"
	"time"

	"pgregory.net/rapid"

	"gitlab.com/yawning/obfs4.git/common/drbg"
	"gitlab.com/yawning/obfs4.git/common/probdist"
	"gitlab.com/yawning/obfs4.git/internal/verifkit/detrand"
	"gitlab.com/yawning/obfs4.git/internal/verifkit/drive"
	"gitlab.com/yawning/obfs4.git/internal/verifkit/ev"
	"gitlab.com/yawning/obfs4.git/internal/verifkit/refdist"
	"gitlab.com/yawning/obfs4.git/internal/verifkit/refobfs4"
	"gitlab.com/yawning/obfs4.git/internal/verifkit/wire"
	"gitlab.com/yawning/obfs4.git/transports/obfs4/framing"
)

// vfDistValues reads the live value table of a distribution by reflection.
func vfDistValues(w *probdist.WeightedDist) []int {
	v := reflect.ValueOf(w).Elem().FieldByName("values")
	minv := int(reflect.ValueOf(w).Elem().FieldByName("minValue").Int())
	out := make([]int, v.Len())
	for i := range out {
		out[i] = minv + int(v.Index(i).Int())
	}
	return out
}

// vfDistFull renders the complete state of a distribution (values, weights and
// sampling tables) by reflection.
func vfDistFull(w *probdist.WeightedDist) string {
	e := reflect.ValueOf(w).Elem()
	var b strings.Builder
	for _, f := range []string{"minValue", "maxValue", "values", "weights", "alias", "prob"} {
		v := e.FieldByName(f)
		if !v.IsValid() {
			continue
		}
		switch v.Kind() {
		case reflect.Slice:
			for i := 0; i < v.Len(); i++ {
				x := v.Index(i)
				if x.Kind() == reflect.Float64 {
					fmt.Fprintf(&b, "%v,", x.Float())
				} else {
					fmt.Fprintf(&b, "%d,", x.Int())
				}
			}
		default:
			fmt.Fprintf(&b, "%d", v.Int())
		}
		b.WriteString(";")
	}
	return b.String()
}

func vfSeedDistFull(seed []byte, biased bool) string {
	s, _ := drbg.SeedFromBytes(seed)
	return vfDistFull(probdist.New(s, 0, framing.MaximumSegmentLength, biased))
}

func vfSeedTable(seed []byte, biased bool) []int {
	s, _ := drbg.SeedFromBytes(seed)
	return vfDistValues(probdist.New(s, 0, framing.MaximumSegmentLength, biased))
}

func vfContains(xs []int, v int) bool {
	for _, x := range xs {
		if x == v {
			return true
		}
	}
	return false
}

var (
	vfZeroSeedMu   sync.Mutex
	vfZeroSeeds    = map[bool][][]byte{}
	vfZeroSeedNext = map[bool]uint64{}
)

// vfZeroTableSeed returns the idx-th seed (in a fixed enumeration) whose length
// table contains the value 0.
func vfZeroTableSeed(idx int, biased bool) []byte {
	vfZeroSeedMu.Lock()
	defer vfZeroSeedMu.Unlock()
	for len(vfZeroSeeds[biased]) <= idx {
		j := vfZeroSeedNext[biased]
		vfZeroSeedNext[biased] = j + 1
		s := detrand.Bytes(0x5eed0000+j, 24)
		if vfContains(vfSeedTable(s, biased), 0) {
			vfZeroSeeds[biased] = append(vfZeroSeeds[biased], s)
		}
	}
	return vfZeroSeeds[biased][idx]
}

// vfGenBridge draws a bridge configuration.
func vfGenBridge(rt *rapid.T, iatChoices []int) (vfBridge, []string) {
	var cls []string
	idk := rapid.Uint64().Draw(rt, "identity")
	br := vfBridge{ID: refobfs4.NewIdentity(detrand.Bytes(idk, 52))}
	br.Biased = rapid.Bool().Draw(rt, "biased")
	switch k := rapid.IntRange(0, 9).Draw(rt, "seedClass"); {
	case k < 2:
		br.Seed = vfZeroTableSeed(rapid.IntRange(0, 15).Draw(rt, "zeroSeedIdx"), br.Biased)
		cls = append(cls, "seed-table-has-0")
	case k < 3:
		br.Seed = make([]byte, 24)
		br.Seed[rapid.IntRange(0, 23).Draw(rt, "seedByte")] = byte(rapid.IntRange(0, 255).Draw(rt, "seedVal"))
		cls = append(cls, "seed-structured")
	default:
		br.Seed = detrand.Bytes(rapid.Uint64().Draw(rt, "seed"), 24)
		cls = append(cls, "seed-uniform")
	}
	br.IAT = rapid.SampledFrom(iatChoices).Draw(rt, "iat")
	cls = append(cls, fmt.Sprintf("iat-%d", br.IAT))
	if br.Biased {
		cls = append(cls, "biased")
	}
	return br, cls
}

// vfBurst is one application write as laid out in the ciphertext stream.
type vfBurst struct {
	start int64
	n     int
}

// vfFrameEnds lists the ciphertext offsets at which payload frames of a burst end.
func (b vfBurst) frameEnds() (ends []int64, chunks []int) {
	off := b.start
	rem := b.n
	for rem > 0 {
		k := rem
		if k > maxPacketPayloadLength {
			k = maxPacketPayloadLength
		}
		off += int64(headerLength + k)
		ends = append(ends, off)
		chunks = append(chunks, k)
		rem -= k
	}
	return
}

type vfDirState struct {
	readerPaused bool // the application reading this direction has stopped calling Read for now
	bursts  []vfBurst
	written int // plaintext bytes written
	hsLen   int64
	insideF bool // some release ended strictly inside a payload frame
	byteRun bool // a 1-byte run crossed a frame header
}

func (d *vfDirState) expected(rel int64) int {
	total := 0
	for _, b := range d.bursts {
		ends, chunks := b.frameEnds()
		for i, e := range ends {
			if e <= rel {
				total += chunks[i]
			}
		}
	}
	return total
}

// boundaries returns interesting ciphertext offsets > from.
func (d *vfDirState) boundaries(from int64, hsFields []int64) []int64 {
	var out []int64
	for _, f := range hsFields {
		if f > from {
			out = append(out, f)
		}
	}
	for _, b := range d.bursts {
		ends, _ := b.frameEnds()
		for _, e := range ends {
			if e > from {
				out = append(out, e)
			}
			if e-int64(headerLength) > from { // just past a frame header of the next frame
				out = append(out, e+2, e+int64(headerLength))
			}
		}
	}
	return out
}

func (d *vfDirState) insideFrame(rel int64) bool {
	for _, b := range d.bursts {
		ends, chunks := b.frameEnds()
		for i, e := range ends {
			st := e - int64(headerLength+chunks[i])
			if rel > st && rel < e {
				return true
			}
		}
	}
	return false
}

var vfWriteSizes = []int{0, 1, 2, 1426, 1427, 1428, 2853, 2854, 2855, 4281}

func vfC01Check(rt *rapid.T, p *vfPair, dirs *[2]vfDirState, hist []string) {
	for name, ep := range map[string]*drive.Endpoint{"client": p.Cl, "server": p.Sv} {
		if msg := vfEndpointFailure(name, ep); msg != "" {
			rt.Fatalf("%s\nhistory: %v", msg, hist)
		}
	}
	for d := 0; d < 2; d++ {
		side := wire.Side(d)
		reader := p.Sv
		rname := "server"
		if d == 1 {
			reader, rname = p.Cl, "client"
		}
		if reader.SetupDone() && reader.SetupErr() != nil {
			rt.Fatalf("VIOL[c01-handshake-failed]: %s handshake failed on an untouched exchange: %v\nhistory: %v", rname, reader.SetupErr(), hist)
		}
		if err := reader.ReadErr(); err != nil {
			rt.Fatalf("VIOL[c01-read-error]: %s Read returned %v on an untouched stream\nhistory: %v", rname, err, hist)
		}
		rel := p.N.Released(side)
		want := dirs[d].expected(rel)
		got := reader.Got()
		full := vfCounterStream(byte(d), 0, dirs[d].written)
		if !bytes.HasPrefix(full, got) {
			i := 0
			for i < len(got) && i < len(full) && got[i] == full[i] {
				i++
			}
			rt.Fatalf("VIOL[c01-corrupt]: %s read %d bytes that are not a prefix of the %d bytes its peer wrote (first difference at %d)\nhistory: %v", rname, len(got), len(full), i, hist)
		}
		if len(got) < want && !dirs[d].readerPaused {
			rt.Fatalf("VIOL[c01-not-readable]: direction %s: %d ciphertext bytes released carry %d plaintext bytes in complete frames, but %s has only obtained %d and is parked (needs further traffic)\nhistory: %v", side, rel, want, rname, len(got), hist)
		}
	}
}

func vfWait(rt *rapid.T, p *vfPair, hist []string) {
	err := p.N.WaitQuiescent(wire.A, wire.B)
	if err != nil {
		// give a stalled machine another minute before blaming the code
		err = p.N.WaitQuiescentFor(60*time.Second, wire.A, wire.B)
	}
	if err != nil {
		rt.Fatalf("VIOL[c01-wedge]: endpoints neither finished nor parked: %v\nhistory: %v", err, hist)
	}
}

func vfC01Case(rt *rapid.T, c *ev.Collector) {
	rk := rapid.Uint64().Draw(rt, "randKey")
	defer vfRandSeedKey(rk)()
	br, cls := vfGenBridge(rt, []int{0, 0, 0, 1, 1, 2})
	legacy := rapid.Bool().Draw(rt, "legacyBridgeLine")
	clientIAT := br.IAT
	if rapid.IntRange(0, 9).Draw(rt, "clientIATown") < 3 {
		clientIAT = rapid.IntRange(0, 2).Draw(rt, "clientIAT")
	}
	flavor := rapid.SampledFrom([]string{"random", "coalesce", "bytewise", "boundary"}).Draw(rt, "flavor")
	cls = append(cls, "lockstep", "flavor-"+flavor)
	var hist []string
	hist = append(hist, fmt.Sprintf("cfg(seed=%x iat=%d clientIAT=%d biased=%v legacy=%v rk=%d)", br.Seed, br.IAT, clientIAT, br.Biased, legacy, rk))

	if vfDrawSteer(rt) {
		cls = append(cls, "handshake-padding-steered")
	}
	p, err := vfStartPair(br, legacy, clientIAT)
	if p != nil && p.N != nil {
		defer p.N.Shutdown()
	}
	if err != nil {
		rt.Fatalf("VIOL[c01-start]: %v", err)
	}
	var dirs [2]vfDirState
	dirs[0].hsLen = p.N.Written(wire.A)
	paranoidBudget := 1500
	slowWrites := 0
	coalesced := false
	readSized := false
	heldWrites := false
	pausedReaders := false
	multiFrame := [2]bool{}

	eps := [2]*drive.Endpoint{p.Cl, p.Sv}
	iat := [2]int{clientIAT, br.IAT}

	hsFields := func(d int) []int64 {
		l := dirs[d].hsLen
		if l == 0 {
			return nil
		}
		if d == 0 {
			return []int64{32, l - 32, l - 16, l}
		}
		return []int64{32, 64, l - 45 - 32, l - 45 - 16, l - 45, l - 45 + 2, l - 45 + 21, l}
	}
	noteServerHS := func() {
		if dirs[1].hsLen == 0 && p.Sv.SetupDone() && p.Sv.SetupErr() == nil {
			w, _, _ := p.N.Snapshot()
			for _, r := range w {
				if r.Side == wire.B {
					dirs[1].hsLen = int64(r.N)
					break
				}
			}
		}
	}
	// a write in three steps, so that the call itself can run in its own
	// goroutine (blocked at the transport) while the case goes on
	type pendingWrite struct {
		d, n  int
		start int64
		data  []byte
		res   drive.Result
		wn    int
	}
	prepWrite := func(d int, n int) *pendingWrite {
		if iat[d] == iatParanoid {
			if n > paranoidBudget {
				n = paranoidBudget
			}
			paranoidBudget -= n
		}
		if iat[d] != iatNone {
			slowWrites++
		}
		w := &pendingWrite{d: d, n: n, start: p.N.Written(wire.Side(d)), data: vfCounterStream(byte(d), dirs[d].written, n)}
		hist = append(hist, fmt.Sprintf("write%s(%d)", wire.Side(d), n))
		return w
	}
	callWrite := func(w *pendingWrite) { w.res, w.wn, _ = eps[w.d].Write(w.data) }
	postWrite := func(w *pendingWrite) {
		d, n := w.d, w.n
		if w.res.Failed() {
			rt.Fatalf("VIOL[c01-write-panic]: %s Write(%d bytes): %s\nhistory: %v", wire.Side(d), n, w.res, hist)
		}
		if w.res.Err != nil || w.wn != n {
			rt.Fatalf("VIOL[c01-write-error]: %s Write(%d bytes) = %d, %v on a healthy connection\nhistory: %v", wire.Side(d), n, w.wn, w.res.Err, hist)
		}
		dirs[d].bursts = append(dirs[d].bursts, vfBurst{w.start, n})
		dirs[d].written += n
		if n > maxPacketPayloadLength {
			multiFrame[d] = true
		}
	}
	doWrite := func(d int, n int) {
		if eps[d].Conn() == nil {
			return
		}
		w := prepWrite(d, n)
		callWrite(w)
		postWrite(w)
	}
	doRelease := func(d int, k int, label string) {
		side := wire.Side(d)
		if k <= 0 || p.N.Pending(side) == 0 {
			return
		}
		before := p.N.Released(side)
		got := p.N.Release(side, k)
		after := before + int64(got)
		hist = append(hist, fmt.Sprintf("release%s(%d:%s)", side, got, label))
		if dirs[d].insideFrame(after) {
			dirs[d].insideF = true
		}
		if d == 1 && dirs[1].hsLen > 0 && before < dirs[1].hsLen && after > dirs[1].hsLen && len(dirs[1].bursts) > 0 && after > dirs[1].bursts[0].start {
			// one segment carried the end of the handshake and payload frames
			ends, _ := dirs[1].bursts[0].frameEnds()
			if len(ends) > 0 && after >= ends[0] {
				coalesced = true
			}
		}
		vfWait(rt, p, hist)
		noteServerHS()
		vfC01Check(rt, p, &dirs, hist)
	}
	release := func(d int) {
		side := wire.Side(d)
		pend := p.N.Pending(side)
		if pend == 0 {
			return
		}
		rel := p.N.Released(side)
		kind := rapid.IntRange(0, 9).Draw(rt, "plan")
		if pend >= consumeReadSize-1 && rapid.IntRange(0, 2).Draw(rt, "readSizedSegment") > 0 {
			// a segment that fills the endpoint's read buffer exactly (or +-1), then silence
			d2 := rapid.IntRange(-1, 1).Draw(rt, "readSizeDelta")
			mult := 1
			if pend >= 2*consumeReadSize+1 && rapid.Bool().Draw(rt, "readSizeDouble") {
				mult = 2
			}
			doRelease(d, mult*consumeReadSize+d2, fmt.Sprintf("readbuf*%d%+d", mult, d2))
			readSized = true
			return
		}
		switch {
		case kind < 2: // run of 1-byte segments
			run := rapid.IntRange(1, 40).Draw(rt, "run")
			for i := 0; i < run && p.N.Pending(side) > 0; i++ {
				doRelease(d, 1, "1")
			}
			if run >= headerLength && len(dirs[d].bursts) > 0 {
				dirs[d].byteRun = true
			}
		case kind < 3:
			doRelease(d, 2, "2")
		case kind < 6: // to a boundary -1 / 0 / +1
			bs := dirs[d].boundaries(rel, hsFields(d))
			if len(bs) == 0 {
				doRelease(d, pend, "all")
				return
			}
			b := bs[rapid.IntRange(0, len(bs)-1).Draw(rt, "boundary")]
			delta := rapid.IntRange(-1, 1).Draw(rt, "delta")
			doRelease(d, int(b-rel)+delta, fmt.Sprintf("boundary%+d", delta))
		case kind < 8:
			doRelease(d, rapid.IntRange(1, pend).Draw(rt, "k"), "k")
		default:
			doRelease(d, pend, "all")
		}
	}

	// scripted opening for the coalesce flavour: server payload in the same
	// segment as its handshake response.
	if flavor == "coalesce" {
		doRelease(0, p.N.Pending(wire.A), "all")
		if p.Sv.Conn() != nil {
			n := rapid.SampledFrom([]int{1, 2, 100, 1427, 1428, 3000}).Draw(rt, "earlyWrite")
			doWrite(1, n)
			if rapid.Bool().Draw(rt, "earlyWrite2") {
				doWrite(1, rapid.IntRange(1, 2000).Draw(rt, "earlyWrite2n"))
			}
			switch rapid.IntRange(0, 3).Draw(rt, "coalescePlan") {
			case 0:
				doRelease(1, p.N.Pending(wire.B), "all")
			case 1:
				// response + seed frame + first payload frame exactly
				ends, _ := dirs[1].bursts[0].frameEnds()
				doRelease(1, int(ends[0]), "hs+frame")
			case 2:
				// split inside the response, then the rest coalesced
				doRelease(1, rapid.IntRange(1, int(dirs[1].hsLen)-1).Draw(rt, "split"), "k")
				doRelease(1, p.N.Pending(wire.B), "all")
			default:
				doRelease(1, int(dirs[1].hsLen)-45, "response-only")
				doRelease(1, p.N.Pending(wire.B), "all")
			}
		}
	}

	nact := rapid.IntRange(4, 40).Draw(rt, "actions")
	for i := 0; i < nact; i++ {
		a := rapid.IntRange(0, 99).Draw(rt, "action")
		if flavor == "bytewise" && a >= 40 && a < 90 {
			a = 45
		}
		switch {
		case a < 20:
			if slowWrites >= 4 && iat[0] != iatNone {
				continue
			}
			n := rapid.SampledFrom(vfWriteSizes).Draw(rt, "sizeC")
			if rapid.IntRange(0, 2).Draw(rt, "randSizeC") == 0 {
				n = rapid.IntRange(0, 6000).Draw(rt, "nC")
			}
			if iat[0] == iatNone && rapid.IntRange(0, 7).Draw(rt, "bigC") == 0 {
				n = rapid.SampledFrom([]int{23168, 32768, 40000, 65536, 70000}).Draw(rt, "bigSizeC")
			}
			doWrite(0, n)
		case a < 40:
			if slowWrites >= 4 && iat[1] != iatNone {
				continue
			}
			n := rapid.SampledFrom(vfWriteSizes).Draw(rt, "sizeS")
			if rapid.IntRange(0, 2).Draw(rt, "randSizeS") == 0 {
				n = rapid.IntRange(0, 6000).Draw(rt, "nS")
			}
			if iat[1] == iatNone && rapid.IntRange(0, 7).Draw(rt, "bigS") == 0 {
				n = rapid.SampledFrom([]int{23168, 32768, 40000, 65536, 70000}).Draw(rt, "bigSizeS")
			}
			doWrite(1, n)
		case a < 65:
			release(0)
		case a < 90:
			release(1)
		case a < 95:
			// a Write that is blocked at the transport (full socket buffer) while the
			// same endpoint's reader keeps receiving
			d := rapid.IntRange(0, 1).Draw(rt, "heldSide")
			if eps[d].Conn() == nil || (slowWrites >= 4 && iat[d] != iatNone) {
				continue
			}
			n := rapid.SampledFrom(vfWriteSizes).Draw(rt, "heldSize")
			side := wire.Side(d)
			p.N.HoldWrites(side, true)
			fin := make(chan struct{})
			hist = append(hist, fmt.Sprintf("hold%s", side))
			w := prepWrite(d, n)
			go func() {
				defer close(fin)
				callWrite(w)
			}()
			if w.n > 0 && p.N.WaitHeld(side, 5*time.Second) {
				heldWrites = true
				for k := rapid.IntRange(1, 3).Draw(rt, "whileHeld"); k > 0; k-- {
					release(1 - d)
				}
			}
			hist = append(hist, fmt.Sprintf("unhold%s", side))
			p.N.HoldWrites(side, false)
			select {
			case <-fin:
			case <-time.After(60 * time.Second):
				rt.Fatalf("VIOL[c01-wedge]: %s Write(%d) did not return within 60 s after the transport accepted it again\nhistory: %v\n%s", side, n, hist, wire.Stacks())
			}
			postWrite(w)
		case a < 97:
			// the application reading direction d stops calling Read (after 0-2 more
			// small Reads) while everything else goes on, and resumes later: what has
			// arrived meanwhile sits inside the transport
			d := rapid.IntRange(0, 1).Draw(rt, "pauseDir")
			reader := eps[1-d]
			if reader.Conn() == nil {
				continue
			}
			if dirs[d].readerPaused {
				reader.Resume()
				dirs[d].readerPaused = false
				hist = append(hist, fmt.Sprintf("resumeReader(%s)", wire.Side(1-d)))
				vfWait(rt, p, hist)
				vfC01Check(rt, p, &dirs, hist)
			} else {
				k := rapid.IntRange(0, 2).Draw(rt, "pauseAfter")
				if k > 0 {
					reader.SetBuf(rapid.SampledFrom([]int{1, 7, 64}).Draw(rt, "pauseBuf"))
				}
				reader.Pause(k)
				dirs[d].readerPaused = true
				pausedReaders = true
				hist = append(hist, fmt.Sprintf("pauseReader(%s,after=%d)", wire.Side(1-d), k))
			}
		default:
			d := rapid.IntRange(0, 1).Draw(rt, "bufSide")
			k := rapid.SampledFrom([]int{1, 7, 1427, 65536}).Draw(rt, "bufSize")
			eps[1-d].SetBuf(k) // reader of direction d is the other endpoint
			hist = append(hist, fmt.Sprintf("readBuf(%s,%d)", wire.Side(1-d), k))
		}
	}
	for d := 0; d < 2; d++ {
		if dirs[d].readerPaused {
			eps[1-d].Resume()
			dirs[d].readerPaused = false
			hist = append(hist, fmt.Sprintf("resumeReader(%s)", wire.Side(1-d)))
		}
	}
	// drain: everything written must arrive without further traffic
	for round := 0; round < 4; round++ {
		doRelease(0, p.N.Pending(wire.A), "all")
		doRelease(1, p.N.Pending(wire.B), "all")
	}
	vfWait(rt, p, hist)
	vfC01Check(rt, p, &dirs, hist)
	for d := 0; d < 2; d++ {
		reader := eps[1-d]
		if reader.GotLen() != dirs[d].written {
			rt.Fatalf("VIOL[c01-not-readable]: direction %s: everything released, %d bytes written, %d read\nhistory: %v", wire.Side(d), dirs[d].written, reader.GotLen(), hist)
		}
	}
	if p.Cl.SetupErr() != nil || p.Sv.SetupErr() != nil || !p.Cl.SetupDone() || !p.Sv.SetupDone() {
		rt.Fatalf("VIOL[c01-handshake-failed]: handshake did not complete on an untouched exchange: client done=%v err=%v, server done=%v err=%v\nhistory: %v",
			p.Cl.SetupDone(), p.Cl.SetupErr(), p.Sv.SetupDone(), p.Sv.SetupErr(), hist)
	}
	inside := dirs[0].insideF || dirs[1].insideF
	byteRun := dirs[0].byteRun || dirs[1].byteRun
	nt := (multiFrame[0] || multiFrame[1]) && dirs[0].written > 0 && dirs[1].written > 0 && inside && (coalesced || byteRun)
	if coalesced {
		cls = append(cls, "coalesced-handshake+payload")
	}
	if byteRun {
		cls = append(cls, "bytewise-run-over-header")
	}
	if inside {
		cls = append(cls, "release-inside-frame")
	}
	if readSized {
		cls = append(cls, "segment-of-exactly-the-read-buffer-size")
	}
	if heldWrites {
		cls = append(cls, "write-blocked-at-transport-while-reading")
	}
	if pausedReaders {
		cls = append(cls, "application-paused-reading")
	}
	if strings.Contains(strings.Join(hist, " "), "(0)") {
		cls = append(cls, "zero-length-write")
	}
	vfCloseTwice(p.Cl.Conn(), p.Sv.Conn())
	h := append([]string(nil), hist...)
	c.Case(ev.Hash(strings.Join(hist, ",")), nt, cls, func() any {
		if len(h) > 60 {
			h = append(h[:60], fmt.Sprintf("...(%d actions)", len(h)))
		}
		return map[string]any{"history": h, "bytes_c2s": dirs[0].written, "bytes_s2c": dirs[1].written}
	})
}

func TestVerifC01Lockstep(t *testing.T) {
	vfSetup(t)
	c := ev.For("C01")
	c.Rule("lockstep: real client and real server (public factories) on a gated in-memory wire; generated bridge (seed incl. tables containing 0, IAT mode, bias, bridge-line form), then up to 40 actions write(side,n)/release(direction, segment plan: 1-byte runs, 2, to a frame/burst/handshake-field boundary -1/0/+1, k, all, exactly one or two read buffers (23168 bytes) -1/0/+1); iat-mode 0 writes occasionally 23168..70000 bytes/reader buffer size, handshake bytes released by the same actions; a Write held at the transport (blocked before the wire looks at its bytes, as on a full socket buffer) while 1-3 segments are released to the same endpoint's reader; an application that stops calling Read for a while (after 0-2 small Reads) and resumes later; oracle after every action at quiescence: bytes obtained are a prefix of what the peer wrote and at least the plaintext of all payload frames completely released; at the end everything is released and both streams must be complete, then both connections are closed from two goroutines each (as the relay's copiers do), so that whatever Close returns to the process is part of the state the following cases run in; non-trivial = a multi-frame write, data in both directions, a release ending strictly inside a frame, and (handshake+payload coalesced in one segment or a 1-byte run across a frame header); fingerprint = configuration + action list")
	c.Floor("write-blocked-at-transport-while-reading/lockstep", 0.03)
	c.Assume("frame layout of a burst (payload frames of <= 1427 bytes first, padding frames after) as stated in the property's mechanism; interleavings explored at action granularity")
	c.Floor("iat-0/lockstep", 0.15)
	c.Floor("iat-1/lockstep", 0.15)
	c.Floor("iat-2/lockstep", 0.10)
	c.Floor("coalesced-handshake+payload/lockstep", 0.10)
	c.Floor("biased/lockstep", 0.20)
	c.Floor("zero-length-write/lockstep", 0.05)
	c.Floor("segment-of-exactly-the-read-buffer-size/lockstep", 0.03)
	rapid.Check(t, func(rt *rapid.T) { vfC01Case(rt, c) })
}

// ---- driver B: free running ---------------------------------------------------------

func TestVerifC01FreeRunning(t *testing.T) {
	vfSetup(t)
	c := ev.For("C01")
	c.Rule("free-running: one reader and one writer goroutine per endpoint, all four at once, wire in random-segmentation mode, generated write-size sequences and 0-200 us pauses; oracle: both streams arrive complete and exact, all goroutines finish, no data race (thorough: -race); non-trivial = both directions carry a multi-frame write")
	rapid.Check(t, func(rt *rapid.T) { vfFreeRunningCase(rt, c) })
}

// vfFreeRunningCase is one free-running full-duplex case (also run by C05 as its
// untampered full-duplex unit).
func vfFreeRunningCase(rt *rapid.T, c *ev.Collector) {
	br, cls := vfGenBridge(rt, []int{0, 0, 0, 1, 2})
	legacy := rapid.Bool().Draw(rt, "legacyBridgeLine")
	sizes := [2][]int{}
	pauses := [2][]int{}
	total := [2]int{}
	multi := [2]bool{}
	for d := 0; d < 2; d++ {
		k := rapid.IntRange(1, 8).Draw(rt, "writes")
		for i := 0; i < k; i++ {
			n := rapid.SampledFrom([]int{0, 1, 2, 1426, 1427, 1428, 2854, 4281, 9000}).Draw(rt, "size")
			if rapid.Bool().Draw(rt, "randSize") {
				n = rapid.IntRange(0, 5000).Draw(rt, "n")
			}
			if br.IAT != iatNone && total[d]+n > 6000 {
				n = 0
			}
			if br.IAT == iatParanoid && total[d]+n > 1500 {
				n = 0 // paranoid mode sleeps after every (possibly tiny) write
			}
			sizes[d] = append(sizes[d], n)
			pauses[d] = append(pauses[d], rapid.IntRange(0, 200).Draw(rt, "pause"))
			total[d] += n
			if n > maxPacketPayloadLength {
				multi[d] = true
			}
		}
	}
	wseed := rapid.Uint64().Draw(rt, "wireSeed")
	sf, err := vfServerFactory(br)
	if err != nil {
		rt.Fatalf("VIOL[c01-start]: %v", err)
	}
	cf, cargs, err := vfClientArgs(br, legacy, br.IAT)
	if err != nil {
		rt.Fatalf("VIOL[c01-start]: %v", err)
	}
	n := wire.NewFree(wseed)
	defer n.Shutdown()
	var conns [2]net.Conn
	var herr [2]error
	var wg sync.WaitGroup
	wg.Add(2)
	go func() {
		defer wg.Done()
		r := drive.Call(30*time.Second, func() error {
			var e error
			conns[1], e = sf.WrapConn(n.Conn(wire.B))
			return e
		})
		if r.Failed() {
			herr[1] = fmt.Errorf("%s", r)
		} else {
			herr[1] = r.Err
		}
	}()
	go func() {
		defer wg.Done()
		r := drive.Call(30*time.Second, func() error {
			var e error
			conns[0], e = cf.Dial("tcp", "192.0.2.1:1", vfDialFn(n.Conn(wire.A)), cargs)
			return e
		})
		if r.Failed() {
			herr[0] = fmt.Errorf("%s", r)
		} else {
			herr[0] = r.Err
		}
	}()
	wg.Wait()
	if herr[0] != nil || herr[1] != nil {
		rt.Fatalf("VIOL[c01-handshake-failed]: free-running handshake: client %v, server %v", herr[0], herr[1])
	}
	var got [2][]byte // got[d]: bytes of direction d as read by the peer
	var rerr, werr [2]string
	var wg2 sync.WaitGroup
	for d := 0; d < 2; d++ {
		d := d
		wg2.Add(2)
		go func() { // writer of direction d
			defer wg2.Done()
			off := 0
			r := drive.Call(30*time.Second, func() error {
				for i, sz := range sizes[d] {
					k, e := conns[d].Write(vfCounterStream(byte(d), off, sz))
					if e != nil || k != sz {
						return fmt.Errorf("Write(%d) = %d, %v", sz, k, e)
					}
					off += sz
					time.Sleep(time.Duration(pauses[d][i]) * time.Microsecond)
				}
				return nil
			})
			if r.Failed() || r.Err != nil {
				werr[d] = r.String()
			}
		}()
		go func() { // reader of direction d is endpoint 1-d
			defer wg2.Done()
			r := drive.Call(30*time.Second, func() error {
				buf := make([]byte, 4096)
				for len(got[d]) < total[d] {
					k, e := conns[1-d].Read(buf)
					got[d] = append(got[d], buf[:k]...)
					if e != nil {
						return e
					}
				}
				return nil
			})
			if r.Failed() || r.Err != nil {
				rerr[d] = r.String()
			}
		}()
	}
	wg2.Wait()
	for d := 0; d < 2; d++ {
		if werr[d] != "" {
			rt.Fatalf("VIOL[c01-free-write]: writer of direction %s: %s (sizes %v)", wire.Side(d), werr[d], sizes)
		}
		if rerr[d] != "" {
			rt.Fatalf("VIOL[c01-free-read]: reader of direction %s got %d of %d bytes: %s (sizes %v)", wire.Side(d), len(got[d]), total[d], rerr[d], sizes)
		}
		if !bytes.Equal(got[d], vfCounterStream(byte(d), 0, total[d])) {
			rt.Fatalf("VIOL[c01-corrupt]: free-running direction %s: stream differs (sizes %v)", wire.Side(d), sizes)
		}
	}
	vfCloseTwice(conns[0], conns[1])
	cls = append(cls, "free-running")
	c.Case(ev.Hash(fmt.Sprint(br.Seed, br.IAT, br.Biased, sizes, wseed)), multi[0] && multi[1], cls, func() any {
		return map[string]any{"driver": "free-running", "iat": br.IAT, "sizes_c2s": sizes[0], "sizes_s2c": sizes[1]}
	})
}

// FuzzVerifC01Lockstep drives the lock-step property with Go's coverage-guided
// fuzzer (the byte string is rapid's bit stream), thorough tier only.
// TestVerifC01ParanoidCorner: in iat-mode 2 every wire write is exactly a
// sampled length; when the burst is short of a sampled length of >= 1428 by at
// most one frame header, the sender has to emit the shortest legal packets
// (header-only, empty payload, no padding).  The corner needs a table value
// >= 1428 AND a matching write size, which generated sessions almost never
// combine; here every such pair is enumerated over the stored one-entry tables.
func TestVerifC01ParanoidCorner(t *testing.T) {
	vfSetup(t)
	c := ev.For("C01")
	c.Rule("paranoid-corner: real client and real server in iat-mode 2 with a one-entry length table {v}, v = 1428..1448 (stored seeds, re-checked against the reference), and one Write of n = v - 21 - d bytes for every shortfall d in 1..21 (burst d bytes short of v; plus d = 0 and 22), in both directions; oracle: the Write returns, the receiver obtains exactly the n bytes and reports no error; distinct by construction; non-trivial = 1448 - v < d <= 21 (the padding needed exceeds one segment)")
	shard, nshards := ev.IntEnv("VERIF_SHARD", 0), ev.IntEnv("VERIF_NSHARDS", 1)
	seeds := vfSingleSeeds(t)
	k := 0
	for v := 1428; v <= vfSeg; v++ {
		seed, ok := seeds[v]
		if !ok {
			t.Fatalf("INFRA: no stored seed for the table {%d}", v)
		}
		if tb := refdist.New(seed, 0, vfSeg, false).Values; len(tb) != 1 || tb[0] != v {
			t.Fatalf("INFRA: stored seed for {%d} denotes %v", v, tb)
		}
		for d := 0; d <= 22; d++ {
			n := v - 21 - d
			for dir := 0; dir < 2; dir++ {
				k++
				if k%nshards != shard {
					continue
				}
				vfSetBias(false)
				br := vfBridge{ID: refobfs4.NewIdentity(vfEnt(0xc01c0+uint64(k))(52)), Seed: seed, IAT: iatParanoid}
				p, err := vfStartPair(br, k%2 == 0, iatParanoid)
				if err == nil {
					err = p.vfFinishHandshake()
				}
				if err != nil {
					if p != nil && p.N != nil {
						p.N.Shutdown()
					}
					t.Fatalf("VIOL[c01-handshake-failed]: %v", err)
				}
				sender, receiver := p.Cl, p.Sv
				if dir == 1 {
					sender, receiver = p.Sv, p.Cl
				}
				data := vfCounterStream(byte(dir), 0, n)
				res, wn, _ := sender.Write(data)
				if res.Failed() || res.Err != nil || wn != n {
					p.N.Shutdown()
					t.Fatalf("VIOL[c01-write-error]: iat-mode 2, table {%d}: Write(%d bytes) = %d, %s", v, n, wn, res)
				}
				p.N.ReleaseAll(wire.Side(dir))
				if err := p.N.WaitQuiescent(wire.A, wire.B); err != nil {
					p.N.Shutdown()
					t.Fatalf("VIOL[c01-wedge]: %v", err)
				}
				if rerr := receiver.ReadErr(); rerr != nil || !bytes.Equal(receiver.Got(), data) {
					js, _ := json.Marshal(map[string]any{"v": v, "d": d, "dir": dir})
					fmt.Printf("VERIF-REPLAY-CASE: %s\n", js)
					p.N.Shutdown()
					t.Fatalf("VIOL[c01-read-error]: iat-mode 2, length table {%d}, one Write of %d bytes (the burst is %d bytes short of the sampled length) in direction %s: the receiver obtained %d of %d bytes, Read error %v", v, n, d, wire.Side(dir), receiver.GotLen(), n, rerr)
				}
				vfCloseTwice(p.Cl.Conn(), p.Sv.Conn())
				p.N.Shutdown()
				c.Bulk(1, 0)
				cls := "paranoid-corner"
				if d > vfSeg-v && d <= 21 {
					cls = "paranoid-corner-padding-exceeds-a-segment"
					c.Bulk(0, 1)
				}
				c.Class(cls, 1)
			}
		}
	}
	c.Subspace("iat-mode 2, one-entry tables {1428..1448} x shortfall 0..22 x both directions", int64(21*23*2))
}

func FuzzVerifC01Lockstep(f *testing.F) {
	vfSetup(f)
	c := ev.For("C01")
	c.Rule("fuzz-lockstep: the lock-step property driven by the native coverage-guided fuzzer through rapid.MakeFuzz (thorough tier)")
	f.Fuzz(rapid.MakeFuzz(func(rt *rapid.T) { vfC01Case(rt, c) }))
}
