//go:build verif

package obfs4

// C18 (b): crash enumeration of one bridge start.
//
// The test binary re-executes itself (TestVerifC18Helper, selected by the
// environment variable VERIF_C18_HELPER) under strace; the helper performs one
// ServerFactory call on the state directory.  The recorded file-system calls
// are replayed prefix by prefix (torn writes included) on an in-memory copy of
// the pre-start directory (verifkit/crashfs); every crash state is written to a
// scratch directory and a fresh plain start is run on it in-process.
//
// Oracle: if an identity P had been presented by the last completed start, the
// recovery start succeeds and presents P (with the crashed start's iat-mode
// override applied or not), or - when the crashed start carried complete new
// credentials - exactly those; nothing else.  Without a completed earlier start
// only "no panic" is claimed.

import (
	"encoding/json"
	"errors"
	"fmt"
	"os"
	"os/exec"
	"path/filepath"
	"strings"
	"testing"

	"pgregory.net/rapid"

	"gitlab.com/yawning/obfs4.git/internal/verifkit/crashfs"
	"gitlab.com/yawning/obfs4.git/internal/verifkit/detrand"
	"gitlab.com/yawning/obfs4.git/internal/verifkit/ev"
)

const vf18HelperEnv = "VERIF_C18_HELPER"

type vf18HelperSpec struct {
	Dir  string   `json:"dir"`
	Args vf18Args `json:"args"`
}

// TestVerifC18Helper is the traced child: one start, bracketed by markers.
func TestVerifC18Helper(t *testing.T) {
	raw := os.Getenv(vf18HelperEnv)
	if raw == "" {
		t.Skip("helper mode only")
	}
	detrand.Real()
	var spec vf18HelperSpec
	if err := json.Unmarshal([]byte(raw), &spec); err != nil {
		t.Fatalf("bad helper spec: %v", err)
	}
	_, _ = os.Stderr.WriteString(crashfs.MarkerPrefix + "start-begin\n")
	_, err := (&Transport{}).ServerFactory(spec.Dir, spec.Args.pt())
	if err != nil {
		_, _ = os.Stderr.WriteString(crashfs.MarkerPrefix + "start-error " + strings.ReplaceAll(err.Error(), "\n", " ") + "\n")
	} else {
		_, _ = os.Stderr.WriteString(crashfs.MarkerPrefix + "start-ok\n")
	}
}

// vf18Record runs one start of the helper on dir under strace.
func vf18Record(dir string, a vf18Args) (ops []crashfs.Op, startOK bool) {
	exe, err := os.Executable()
	if err != nil {
		vf18Inconclusive("os.Executable: %v", err)
	}
	spec, _ := json.Marshal(vf18HelperSpec{Dir: dir, Args: a})
	cmd := exec.Command(exe, "-test.run=^TestVerifC18Helper$", "-test.count=1", "-test.timeout=120s")
	cmd.Dir = dir + "/.." // not inside the watched directory
	for _, kv := range os.Environ() {
		if strings.HasPrefix(kv, "VERIF_EVIDENCE_DIR=") || strings.HasPrefix(kv, vf18HelperEnv+"=") {
			continue
		}
		cmd.Env = append(cmd.Env, kv)
	}
	cmd.Env = append(cmd.Env, vf18HelperEnv+"="+string(spec))
	ops, trace, out, err := crashfs.Record(cmd, dir)
	if err != nil {
		if errors.Is(err, crashfs.ErrUnavailable) {
			vf18Inconclusive("%v", err)
		}
		vf18Inconclusive("recording the helper failed: %v\noutput: %s\ntrace tail: %s", err, out, vf18Tail(trace, 2000))
	}
	begin, end := -1, -1
	for i, op := range ops {
		if op.Kind != "marker" {
			continue
		}
		switch m := string(op.Data); {
		case m == "start-begin":
			begin = i
		case m == "start-ok":
			end, startOK = i, true
		case strings.HasPrefix(m, "start-error"):
			end = i
		}
	}
	if begin < 0 || end < begin {
		vf18Inconclusive("helper markers not found in the trace (%d ops)\noutput: %s\ntrace tail: %s", len(ops), out, vf18Tail(trace, 2000))
	}
	for _, op := range append(append([]crashfs.Op(nil), ops[:begin]...), ops[end+1:]...) {
		if op.Kind != "marker" {
			vf18Inconclusive("helper touched the state directory outside the start: %s", op)
		}
	}
	return ops[begin+1 : end], startOK
}

func vf18Tail(s string, n int) string {
	if len(s) > n {
		return "..." + s[len(s)-n:]
	}
	return s
}

type vf18CrashKind struct {
	name string
	pre  bool // a completed start precedes the crashed one
}

var vf18CrashKinds = []vf18CrashKind{
	{"first-start", false},
	{"restart", true},
	{"restart-iat-override", true},
	{"restart-explicit", true},
	{"first-start-explicit", false},
	{"restart-invalid-iat", true},
}

// One test function per start kind (the driver demands "passed N" from each),
// so that a rapid case is one traced start and shrinking stays cheap.
func TestVerifC18CrashStartFirst(t *testing.T)         { vf18CrashStartTest(t, vf18CrashKinds[0]) }
func TestVerifC18CrashStartRestart(t *testing.T)       { vf18CrashStartTest(t, vf18CrashKinds[1]) }
func TestVerifC18CrashStartRestartIAT(t *testing.T)    { vf18CrashStartTest(t, vf18CrashKinds[2]) }
func TestVerifC18CrashStartRestartExpl(t *testing.T)   { vf18CrashStartTest(t, vf18CrashKinds[3]) }
func TestVerifC18CrashStartFirstExpl(t *testing.T)     { vf18CrashStartTest(t, vf18CrashKinds[4]) }
func TestVerifC18CrashStartRestartBadIAT(t *testing.T) { vf18CrashStartTest(t, vf18CrashKinds[5]) }

func vf18CrashStartTest(t *testing.T, kind vf18CrashKind) {
	e := ev.For("C18")
	e.Rule("crash-start: for each start kind (first start, restart, restart with iat-mode override, restart with explicit credentials, first start with explicit credentials, restart with an invalid iat-mode) a pre-history of 1-3 completed starts (plain / override / explicit) is run in-process, then the helper (re-executed test binary) performs the start under strace; crash states = pre-start directory + every prefix of the recorded calls on the state directory + torn prefixes of every write (all lengths <= 512 bytes, boundaries and a spread above; thorough: all lengths); on every crash state a plain recovery start runs in-process and the history continues, with the crash residue (e.g. *.tmp) carried along: plain; or (fresh copy of the crash state) explicit start with the recovered identity, then plain; or iat-mode override, then plain - all three after every call boundary, one in rotation on torn states - under the identity model of the history unit; non-trivial = crash state whose directory content differs from both the pre-start and the post-start directory; fingerprint = (kind, pre-history, call index, torn length)")
	e.Assume("crash model: the process is killed; completed system calls persist in program order; a single write may be torn at any byte; fsync is a no-op (no power loss, no reordering of completed calls)")
	e.Assume("strace -f -y -xx records every call on the state directory; the replayer is validated on every trace by comparing the replayed final state with the directory the helper left behind")
	e.Floor("crash-start-torn-write/crash-start", 0.5)
	for _, c := range []string{"plain-plain", "explicit-same-identity-then-plain", "iat-override-then-plain"} {
		e.Floor("crash-start-cont-"+c+"/crash-start", 0.10)
	}
	for _, k := range vf18CrashKinds[:5] {
		e.Floor("crash-start-"+k.name+"/crash-start", 0.05)
	}
	tornAll := ev.Thorough()
	rapid.Check(t, func(rt *rapid.T) {
		detrand.Seed(uint64(rapid.IntRange(0, 4095).Draw(rt, "rng"))) // small range: rapid minimises every drawn value bit by bit, one traced start per attempt
		defer detrand.Real()
		vf18CrashCase(rt, e, kind, tornAll)
	})
}

func vf18CrashCase(rt *rapid.T, e *ev.Collector, kind vf18CrashKind, tornAll bool) {
	base := vf18TempDir("vf18-crash-*")
	defer os.RemoveAll(base)
	dir := filepath.Join(base, "state")
	rec := filepath.Join(base, "recover")
	if err := os.Mkdir(dir, 0o700); err != nil {
		vf18Inconclusive("mkdir: %v", err)
	}
	var hist []string
	fail := func(format string, a ...any) {
		rt.Fatalf("%s\nkind %s; completed starts before the crashed one: %s", fmt.Sprintf(format, a...), kind.name, strings.Join(hist, " ; "))
	}

	// pre-history (in-process, completed starts)
	var P *vf18Ident
	if kind.pre {
		n := rapid.IntRange(1, 3).Draw(rt, kind.name+"-npre")
		for i := 0; i < n; i++ {
			var a vf18Args
			switch rapid.IntRange(0, 3).Draw(rt, kind.name+"-prekind") {
			case 0, 1:
				a = vf18Args{}
			case 2:
				a = vf18Args{iatArg: fmt.Sprint(rapid.IntRange(0, 2).Draw(rt, kind.name+"-preiat"))}
			default:
				a, _ = vf18DrawExplicitArgs(rt, kind.name+"-pre")
			}
			sf, err, pan := vf18Start(dir, a)
			if pan != "" || err != nil {
				fail("VIOL[c18-restart-failed]: completed start %s of the pre-history fails: %v %s", a, err, pan)
			}
			got, msg := vf18CheckStart(dir, sf)
			if msg != "" {
				fail("%s", msg)
			}
			hist = append(hist, a.String()+" -> "+got.String())
			P = &got
		}
	}

	// the crashed start
	var crashed vf18Args
	var N *vf18Ident
	iatOverride := -1
	switch kind.name {
	case "first-start", "restart":
		crashed = vf18Args{}
	case "restart-iat-override":
		iatOverride = rapid.IntRange(0, 2).Draw(rt, kind.name+"-iat")
		crashed = vf18Args{iatArg: fmt.Sprint(iatOverride)}
	case "restart-explicit", "first-start-explicit":
		a, id := vf18DrawExplicitArgs(rt, kind.name+"-new")
		if rapid.Bool().Draw(rt, kind.name+"-with-iat") {
			iatOverride = rapid.IntRange(0, 2).Draw(rt, kind.name+"-iat")
			a[iatArg] = fmt.Sprint(iatOverride)
		}
		crashed, N = a, &id
	case "restart-invalid-iat":
		crashed = vf18Args{iatArg: rapid.SampledFrom(vf18BadIATRange).Draw(rt, kind.name+"-badiat")}
	}

	pre, err := crashfs.Load(dir)
	if err != nil {
		vf18Inconclusive("load: %v", err)
	}
	ops, startOK := vf18Record(dir, crashed)
	if !startOK && kind.name != "restart-invalid-iat" {
		fail("VIOL[c18-restart-failed]: the traced start %s failed in the helper process", crashed)
	}
	post, err := crashfs.Load(dir)
	if err != nil {
		vf18Inconclusive("load: %v", err)
	}
	preFP, postFP := pre.Fingerprint(), post.Fingerprint()

	// allowed identities after recovery
	var allowed []vf18Ident
	if P != nil {
		allowed = append(allowed, *P)
		if iatOverride >= 0 && N == nil {
			q := *P
			q.IAT = iatOverride
			allowed = append(allowed, q)
		}
		if N != nil {
			q := *N
			q.IAT = 0
			if iatOverride >= 0 {
				q.IAT = iatOverride
			}
			allowed = append(allowed, q)
			if iatOverride < 0 {
				q.IAT = P.IAT
				allowed = append(allowed, q)
			}
		}
	}

	nstates, ntorn := 0, 0
	var lastFS *crashfs.FS
	var violation string
	var written *vf18Ident // first-start kinds: identity found completely written at an earlier call boundary
	enumErr := crashfs.Enumerate(pre, ops, tornAll, func(st crashfs.State) bool {
		nstates++
		lastFS = st.FS
		if st.Torn >= 0 {
			ntorn++
		}
		// materialize writes the crash state, residue (e.g. *.tmp) included, into rec
		materialize := func() {
			_ = os.RemoveAll(rec)
			if err := os.Mkdir(rec, 0o700); err != nil {
				vf18Inconclusive("mkdir: %v", err)
			}
			if err := st.FS.Materialize(rec); err != nil {
				vf18Inconclusive("materialize: %v", err)
			}
		}
		materialize()
		where := func() string {
			var files []string
			for _, n := range st.FS.Names() {
				d, _, _ := st.FS.File(n)
				files = append(files, fmt.Sprintf("%s (%d bytes)", n, len(d)))
			}
			var calls []string
			for i, op := range ops {
				calls = append(calls, fmt.Sprintf("%d:%s", i, op))
			}
			return fmt.Sprintf("crash point: %s of the traced %s; directory then holds: %s\nrecorded calls: %s", st.Desc, crashed, strings.Join(files, ", "), strings.Join(calls, " "))
		}
		sf, err, pan := vf18Start(rec, vf18Args{})
		if pan != "" {
			violation = fmt.Sprintf("VIOL[c18-panic]: recovery start panics: %s\n%s", pan, where())
			return false
		}
		fpState := st.FS.Fingerprint()
		nt := fpState != preFP && fpState != postFP
		cls := []string{"crash-start", "crash-start-" + kind.name}
		if st.Torn >= 0 {
			cls = append(cls, "crash-start-torn-write")
		}
		if P == nil {
			// Nothing is claimed without a completed earlier start.  Counted only: an
			// identity that was completely on disk at an earlier call boundary of this
			// same start (recovery from there presented it) and is gone at this point.
			if err != nil {
				cls = append(cls, "crash-start-no-prior-identity-recovery-fails(nothing-claimed)")
				if written != nil {
					cls = append(cls, "crash-start-first-start-identity-written-earlier-then-lost(not-claimed)")
				}
			} else if _, _, present := st.FS.File(stateFile); present && st.Torn < 0 && written == nil {
				id := vf18Presented(sf)
				written = &id
			} else if written != nil && !vf18Presented(sf).sameKeys(*written) {
				cls = append(cls, "crash-start-first-start-identity-written-earlier-then-lost(not-claimed)")
			}
		} else {
			if err != nil {
				violation = fmt.Sprintf("VIOL[c18-crash-identity-lost]: identity %v had been presented by a completed start; after the crash the bridge does not start any more: %v\n%s", *P, err, where())
				return false
			}
			got, msg := vf18CheckStart(rec, sf)
			if msg != "" {
				violation = msg + "\n" + where()
				return false
			}
			ok := false
			for _, a := range allowed {
				if got == a {
					ok = true
				}
			}
			if !ok {
				violation = fmt.Sprintf("VIOL[c18-crash-identity-replaced]: identity %v had been presented by a completed start; after the crash the bridge presents %v (allowed: %v)\n%s", *P, got, allowed, where())
				return false
			}
		}
		if err == nil {
			// The history goes on after the crash: continuations of further starts, with
			// the crash residue carried along exactly as the crash left it.  The recovery
			// start above has completed and presented `got`, so from here on the ordinary
			// identity model applies.
			got := vf18Presented(sf)
			if P == nil {
				if _, msg := vf18CheckStart(rec, sf); msg != "" {
					violation = msg + "\n" + where()
					return false
				}
			}
			variants := []int{0, 1, 2}
			if st.Torn >= 0 {
				variants = []int{ntorn % 3} // torn states: one continuation each, in rotation
			}
			for _, v := range variants {
				var steps []vf18ContStep
				var model, keys *vf18Ident
				switch v {
				case 0: // plain (on the directory the recovery start left behind)
					steps = []vf18ContStep{{name: "plain", args: vf18Args{}}}
					model = &got
					cls = append(cls, "crash-start-cont-plain-plain")
				case 1: // explicit start with the persisted identity, then plain
					materialize()
					steps = []vf18ContStep{vf18ExplicitStep(got), {name: "plain", args: vf18Args{}}}
					cls = append(cls, "crash-start-cont-explicit-same-identity-then-plain")
				case 2: // iat-mode override, then plain
					materialize()
					k := (got.IAT + 1) % 3
					steps = []vf18ContStep{{name: "iat", args: vf18Args{iatArg: fmt.Sprint(k)}, iat: k}, {name: "plain", args: vf18Args{}}}
					if P != nil {
						keys = &got // same crash state, same persisted keys
					}
					cls = append(cls, "crash-start-cont-iat-override-then-plain")
				}
				if msg := vf18RunSteps(rec, steps, model, P != nil, keys); msg != "" {
					violation = msg + "\n(the crash state was recovered by a plain start presenting " + got.String() + ")\n" + where()
					return false
				}
			}
		}
		h := strings.Join(hist, ";")
		e.Case(ev.Hash("crash-start", kind.name, h, crashed.String(), st.Index, st.Torn), nt, cls, func() any {
			return map[string]any{"part": "crash-start", "kind": kind.name, "completed_before": append([]string(nil), hist...), "crashed_start": crashed.String(), "crash_point": st.Desc}
		})
		return true
	})
	if violation != "" {
		fail("%s", violation)
	}
	if enumErr != nil {
		vf18Inconclusive("replay of the recorded calls failed: %v", enumErr)
	}
	// replayer validation: all calls applied == what the helper left behind
	if lastFS == nil || lastFS.Fingerprint() != postFP {
		var calls []string
		for i, op := range ops {
			calls = append(calls, fmt.Sprintf("%d:%s", i, op))
		}
		vf18Inconclusive("replaying the trace does not reproduce the directory the helper left behind (kind %s)\ncalls: %s", kind.name, strings.Join(calls, " "))
	}
	e.Class("crash-start-traces", 1)
	e.Class("crash-start-traces-"+kind.name, 1)
	vf18StatesTotal += nstates
	vf18TornTotal += ntorn
	e.Set("crash_states_start", vf18StatesTotal) // summed over processes by the driver
	e.Set("crash_states_start_torn", vf18TornTotal)
}

var vf18StatesTotal, vf18TornTotal int

// ---- continuations after a crash ---------------------------------------------------

type vf18ContStep struct {
	name string // plain | iat | explicit
	args vf18Args
	iat  int
	expl *vf18Ident
}

// vf18ExplicitStep: a start that supplies exactly identity id (credentials and iat-mode).
func vf18ExplicitStep(id vf18Ident) vf18ContStep {
	return vf18ContStep{name: "explicit", iat: id.IAT, expl: &id, args: vf18Args{
		nodeIDArg:     fmt.Sprintf("%x", id.NodeID[:]),
		privateKeyArg: fmt.Sprintf("%x", id.Priv[:]),
		seedArg:       fmt.Sprintf("%x", id.Seed[:]),
		iatArg:        fmt.Sprint(id.IAT),
	}}
}

// vf18RunSteps runs further starts on dir against the identity model.  model:
// identity presented by the last completed start on dir (nil: none yet); strict:
// the first step must succeed even without a model (an identity had been
// presented before the crash); keys: the keys the first step must present when
// it does not supply credentials itself (nil: unknown).
func vf18RunSteps(dir string, steps []vf18ContStep, model *vf18Ident, strict bool, keys *vf18Ident) string {
	var done []string
	for i, stp := range steps {
		done = append(done, stp.args.String())
		ctx := "continuation after the crash: " + strings.Join(done, " ; ")
		sf, err, pan := vf18Start(dir, stp.args)
		if pan != "" {
			return fmt.Sprintf("VIOL[c18-panic]: %s: %s", ctx, pan)
		}
		if err != nil {
			switch {
			case model != nil:
				return fmt.Sprintf("VIOL[c18-crash-identity-lost]: %s: the last start fails although the start before it had succeeded and presented %v: %v", ctx, *model, err)
			case strict && i == 0:
				return fmt.Sprintf("VIOL[c18-crash-identity-lost]: %s: the start fails although an identity had been presented before the crash: %v", ctx, err)
			}
			return "" // nothing established yet, nothing claimed
		}
		got, msg := vf18CheckStart(dir, sf)
		if msg != "" {
			return msg + " (" + ctx + ")"
		}
		base := model
		if base == nil {
			base = keys
		}
		switch stp.name {
		case "plain":
			if model != nil && got != *model {
				return fmt.Sprintf("VIOL[c18-identity-changed]: %s: presents %v, the start before it presented %v", ctx, got, *model)
			}
			if model == nil && base != nil && !got.sameKeys(*base) {
				return fmt.Sprintf("VIOL[c18-crash-identity-replaced]: %s: presents %v, the persisted keys are those of %v", ctx, got, *base)
			}
		case "iat":
			if base != nil && !got.sameKeys(*base) {
				return fmt.Sprintf("VIOL[c18-crash-identity-replaced]: %s: presents %v, the persisted keys are those of %v", ctx, got, *base)
			}
			if got.IAT != stp.iat {
				return fmt.Sprintf("VIOL[c18-iat-override]: %s: runs iat-mode %d", ctx, got.IAT)
			}
		case "explicit":
			if !got.sameKeys(*stp.expl) || got.IAT != stp.iat {
				return fmt.Sprintf("VIOL[c18-explicit]: %s: presents %v, credentials given were %v", ctx, got, *stp.expl)
			}
		}
		model = &got
	}
	return ""
}
