//go:build verif

package obfs4

// C03 — the server is silent to anyone who cannot prove knowledge of the bridge
// line, and closes only at its seeded deadline.
// C04 — each client handshake is accepted once, within +-1 hour.
// Both drive the real server (public ServerFactory / WrapConn) with handshakes
// crafted by the reference client over the gated wire with virtual deadlines.

import (
	"bytes"
	"fmt"
	"math"
	"net"
	"reflect"
	"strings"
	"sync"
	"testing"
	"time"

	"pgregory.net/rapid"

	"gitlab.com/yawning/obfs4.git/internal/verifkit/detrand"
	"gitlab.com/yawning/obfs4.git/internal/verifkit/drive"
	"gitlab.com/yawning/obfs4.git/internal/verifkit/ev"
	"gitlab.com/yawning/obfs4.git/internal/verifkit/refobfs4"
	"gitlab.com/yawning/obfs4.git/internal/verifkit/refx"
	"gitlab.com/yawning/obfs4.git/internal/verifkit/wire"
	"gitlab.com/yawning/obfs4.git/transports/base"
)

// vfSrvConn is one connection to the real server under observation.
type vfSrvConn struct {
	n  *wire.Net
	ep *drive.Endpoint
	t0 time.Time
}

func vfOpenServerConn(sf base.ServerFactory) (*vfSrvConn, error) {
	sc := &vfSrvConn{n: wire.New(), t0: time.Now()}
	sc.ep = drive.Start(sc.n, wire.B, func() (net.Conn, error) { return sf.WrapConn(sc.n.Conn(wire.B)) })
	if err := sc.n.WaitQuiescent(wire.B); err != nil {
		return sc, err
	}
	return sc, nil
}

// vfSilenceReport is the outcome of analysing the server side of a rejected connection.
type vfSilenceReport struct {
	dCandidates []int // whole-second close delays consistent with the final deadline
	stalled     bool  // measurement window too wide to judge the delay
	finalArmed  bool
}

// vfCheckSilent verifies the observable behaviour the property demands for a
// connection that must be rejected.  peerClosedFirst: the harness signalled EOF
// before the final deadline fired.
func vfCheckSilent(sc *vfSrvConn, peerClosedFirst bool) (vfSilenceReport, string) {
	var rep vfSilenceReport
	if pv, st := sc.ep.Panic(); pv != nil {
		return rep, fmt.Sprintf("VIOL[c03-panic]: server panicked: %v\n%s", pv, st)
	}
	w, dl, cl := sc.n.Snapshot()
	for _, r := range w {
		if r.Side == wire.B && r.N > 0 {
			return rep, fmt.Sprintf("VIOL[c03-not-silent]: server wrote %d bytes to a peer that must be ignored", r.N)
		}
	}
	var sdl []wire.DeadlineRec
	for _, r := range dl {
		if r.Side == wire.B {
			sdl = append(sdl, r)
		}
	}
	if len(sdl) == 0 {
		return rep, "VIOL[c03-no-deadline]: server never armed a deadline"
	}
	first := sdl[0]
	if first.ReadsBefore != 0 || first.T.IsZero() || first.Kind == "w" {
		return rep, fmt.Sprintf("VIOL[c03-deadline-after-read]: first deadline call (%s %v) came after %d reads", first.Kind, first.T, first.ReadsBefore)
	}
	if hd := first.T.Sub(first.At); hd < 29*time.Second || hd > 31*time.Second {
		return rep, fmt.Sprintf("VIOL[c03-handshake-timeout]: handshake deadline armed %v after accept, want 30s", hd)
	}
	// Whatever the peer sends, the time-out armed at accept must not move: every
	// deadline call except the final one (the seeded close time) has to name the
	// same instant or an earlier one.  (The harness lets no real time pass between
	// segments, so a time-out that is re-armed relative to "now" shows up as an
	// instant that is later by the few microseconds the segments are apart.)
	for i := 1; i < len(sdl)-1; i++ {
		if sdl[i].T.IsZero() || sdl[i].T.After(first.T) {
			return rep, fmt.Sprintf("VIOL[c03-deadline-extended]: deadline call %d of %d (%s, after %d reads) moves the time-out from accept+%v to accept+%v: peer activity extends the connection beyond its fixed close time", i+1, len(sdl), sdl[i].Kind, sdl[i].ReadsBefore, first.T.Sub(first.At), sdl[i].T.Sub(first.At))
		}
	}
	last := sdl[len(sdl)-1]
	if last.T.IsZero() {
		return rep, "VIOL[c03-deadline-cleared]: server cleared its deadline on a connection that must be rejected"
	}
	if len(sdl) >= 2 {
		rep.finalArmed = true
		// D = startTime + 30s + d, startTime in [t0, first.At]
		lo := last.T.Sub(first.At) - 30*time.Second
		hi := last.T.Sub(sc.t0) - 30*time.Second
		if first.At.Sub(sc.t0) > 500*time.Millisecond {
			rep.stalled = true
		}
		for d := int(math.Ceil(lo.Seconds() - 1e-9)); float64(d) <= hi.Seconds()+1e-9; d++ {
			rep.dCandidates = append(rep.dCandidates, d)
		}
		if !rep.stalled {
			if len(rep.dCandidates) == 0 {
				return rep, fmt.Sprintf("VIOL[c03-close-time-not-whole-seconds]: final deadline is accept+30s+[%v,%v], which contains no whole number of seconds", lo, hi)
			}
			for _, d := range rep.dCandidates {
				if d < 0 || d >= 60 {
					return rep, fmt.Sprintf("VIOL[c03-close-time-range]: connection is closed %d s after accept+30s, want 0..59", d)
				}
			}
		}
	}
	var closes []wire.CloseRec
	for _, r := range cl {
		if r.Side == wire.B {
			closes = append(closes, r)
		}
	}
	if len(closes) == 0 {
		return rep, "VIOL[c03-never-closed]: connection was not closed after its final deadline fired / the peer disconnected"
	}
	if !sc.ep.SetupDone() || sc.ep.SetupErr() == nil {
		return rep, fmt.Sprintf("VIOL[c03-accepted]: WrapConn did not report an error (done=%v err=%v)", sc.ep.SetupDone(), sc.ep.SetupErr())
	}
	if !peerClosedFirst {
		if !rep.finalArmed {
			return rep, "VIOL[c03-early-close]: server closed the connection without waiting for its seeded close time"
		}
		if closes[0].VNow.Before(last.T) || closes[0].Seq < last.Seq {
			return rep, fmt.Sprintf("VIOL[c03-early-close]: server closed at virtual time %v, before its final deadline %v", closes[0].VNow, last.T)
		}
	}
	if u := sc.n.Unread(wire.A); u != 0 {
		return rep, fmt.Sprintf("VIOL[c03-not-draining]: %d bytes sent by the peer were left unread", u)
	}
	return rep, ""
}

// vfMidCheck is evaluated at every quiescent point while the probe is running.
func vfMidCheck(sc *vfSrvConn) string {
	if pv, st := sc.ep.Panic(); pv != nil {
		return fmt.Sprintf("VIOL[c03-panic]: server panicked: %v\n%s", pv, st)
	}
	if sc.n.Written(wire.B) != 0 {
		return fmt.Sprintf("VIOL[c03-not-silent]: server wrote %d bytes to a peer that must be ignored", sc.n.Written(wire.B))
	}
	if u := sc.n.Unread(wire.A); u != 0 && !sc.n.Closed(wire.B) {
		return fmt.Sprintf("VIOL[c03-not-draining]: %d released bytes were not consumed", u)
	}
	return ""
}

// vfFinish ends a rejected connection: by peer disconnect, or by firing deadlines.
func vfFinish(sc *vfSrvConn, peerClosesFirst bool) string {
	if peerClosesFirst {
		sc.n.EOF(wire.A)
		if err := sc.n.WaitQuiescent(wire.B); err != nil {
			return "VIOL[c03-wedge]: " + err.Error()
		}
		return ""
	}
	for i := 0; i < 4 && !sc.n.Closed(wire.B); i++ {
		// a Close before the armed deadline fires is judged by vfCheckSilent
		if !sc.n.Fire(wire.B) {
			break
		}
		if err := sc.n.WaitQuiescent(wire.B); err != nil {
			return "VIOL[c03-wedge]: " + err.Error()
		}
		if msg := vfMidCheck(sc); msg != "" {
			return msg
		}
	}
	return ""
}

// vfSendPlan releases probe bytes chunk by chunk, optionally firing the armed
// deadline between chunks.
type vfSendPlan struct {
	Chunks []int
	Fire   []bool
}

func vfGenPlan(rt *rapid.T, total int, avoid int) vfSendPlan {
	var p vfSendPlan
	left := total
	sent := 0
	k := rapid.IntRange(1, 5).Draw(rt, "chunks")
	for i := 0; i < k && left > 0; i++ {
		c := left
		if i < k-1 {
			c = rapid.IntRange(1, left).Draw(rt, "chunk")
		}
		if avoid > 0 && sent+c == avoid && left > c {
			c++ // never let a segment end exactly where a valid handshake would
		} else if avoid > 0 && sent+c == avoid && c > 1 {
			c--
		}
		p.Chunks = append(p.Chunks, c)
		p.Fire = append(p.Fire, rapid.IntRange(0, 9).Draw(rt, "fireBetween") == 0)
		left -= c
		sent += c
	}
	if left > 0 {
		p.Chunks = append(p.Chunks, left)
		p.Fire = append(p.Fire, false)
	}
	return p
}

func vfRunProbe(sc *vfSrvConn, probe []byte, plan vfSendPlan) string {
	sc.n.Inject(wire.A, probe)
	for i, c := range plan.Chunks {
		if sc.n.Closed(wire.B) {
			return "" // closed after a fired deadline; vfCheckSilent judges whether that was allowed
		}
		sc.n.Release(wire.A, c)
		if err := sc.n.WaitQuiescent(wire.B); err != nil {
			return "VIOL[c03-wedge]: " + err.Error()
		}
		if msg := vfMidCheck(sc); msg != "" {
			return msg
		}
		if plan.Fire[i] && !sc.n.Closed(wire.B) {
			sc.n.Fire(wire.B)
			if err := sc.n.WaitQuiescent(wire.B); err != nil {
				return "VIOL[c03-wedge]: " + err.Error()
			}
			if msg := vfMidCheck(sc); msg != "" {
				return msg
			}
		}
	}
	if sc.n.Closed(wire.B) {
		return ""
	}
	sc.n.ReleaseAll(wire.A)
	if err := sc.n.WaitQuiescent(wire.B); err != nil {
		return "VIOL[c03-wedge]: " + err.Error()
	}
	return vfMidCheck(sc)
}

var (
	vfLowReprOnce sync.Once
	vfLowReprs    [][]byte
)

// vfLowOrderReprs returns representatives that decode to low-order points.
func vfLowOrderReprs() [][]byte {
	vfLowReprOnce.Do(func() {
		zero := make([]byte, 32)
		if refx.MapToU(zero).Sign() == 0 {
			vfLowReprs = append(vfLowReprs, zero)
		}
		for _, u := range refx.LowOrderU() {
			if !refx.Representable(u) {
				continue
			}
			pre, err := refx.Preimages(u)
			if err != nil {
				continue
			}
			for _, r := range pre {
				le := refx.ToLE(r)
				if refx.MapToU(le[:]).Cmp(u) == 0 {
					vfLowReprs = append(vfLowReprs, append([]byte(nil), le[:]...))
				}
			}
		}
	})
	return vfLowReprs
}

var vfProbeClasses = []string{"empty", "random", "truncated", "extended", "bitflip-repr", "bitflip-pad", "bitflip-mark", "bitflip-mac", "wrong-hour", "wrong-identity", "replay", "low-order"}

// vfGenProbe builds one probe of the given class.  prior: a handshake already
// accepted by this factory (for the replay class).
func vfGenProbe(rt *rapid.T, class string, br vfBridge, ent func(int) []byte, hour int64, prior []byte) (probe []byte, avoid int, desc string) {
	pub := refobfs4.Identity{Pub: br.ID.Pub, NodeID: br.ID.NodeID}
	padLen := rapid.IntRange(refobfs4.ClientMinPad, refobfs4.ClientMaxPad).Draw(rt, "probePad")
	mk := func(id refobfs4.Identity, h int64) []byte {
		cl := &refobfs4.Client{ID: id, Key: refobfs4.NewEKey(ent), Pad: ent(padLen), Hour: h}
		return append([]byte(nil), cl.Handshake()...)
	}
	switch class {
	case "empty":
		return nil, 0, "empty"
	case "random":
		l := rapid.SampledFrom([]int{1, 10, 63, 64, 141, 5000, 8191, 8192, 8193, 20000}).Draw(rt, "randomLen")
		if rapid.Bool().Draw(rt, "randomLenFree") {
			l = rapid.IntRange(1, 20000).Draw(rt, "randomLenN")
		}
		if rapid.IntRange(0, 5).Draw(rt, "flood") == 0 {
			// a flood: far more than any buffer or "reasonable" amount of junk
			l = rapid.SampledFrom([]int{65536, 131072, 139264, 139265, 200000, 1 << 20}).Draw(rt, "floodLen")
		}
		return ent(l), 0, fmt.Sprintf("random(%d)", l)
	case "truncated":
		hs := mk(pub, hour)
		cut := rapid.IntRange(0, len(hs)-1).Draw(rt, "cut")
		if rapid.Bool().Draw(rt, "cutNearEnd") {
			cut = len(hs) - rapid.IntRange(1, 33).Draw(rt, "cutTail")
		}
		return hs[:cut], 0, fmt.Sprintf("truncated(%d of %d)", cut, len(hs))
	case "extended":
		// The server reads at most 8192 bytes at a time, so garbage behind a
		// maximum-length handshake always arrives in a later read, i.e. after a
		// valid handshake has been presented: not a probe.
		if padLen == refobfs4.ClientMaxPad {
			padLen--
		}
		hs := mk(pub, hour)
		k := rapid.IntRange(1, 64).Draw(rt, "extra")
		return append(hs, ent(k)...), len(hs), fmt.Sprintf("extended(%d+%d)", len(hs), k)
	case "bitflip-repr", "bitflip-pad", "bitflip-mark", "bitflip-mac":
		hs := mk(pub, hour)
		var lo, hi int
		switch class {
		case "bitflip-repr":
			lo, hi = 0, 32
		case "bitflip-pad":
			lo, hi = 32, len(hs)-32
		case "bitflip-mark":
			lo, hi = len(hs)-32, len(hs)-16
		default:
			lo, hi = len(hs)-16, len(hs)
		}
		pos := rapid.IntRange(lo, hi-1).Draw(rt, "flipByte")
		bit := rapid.IntRange(0, 7).Draw(rt, "flipBit")
		hs[pos] ^= 1 << uint(bit)
		return hs, 0, fmt.Sprintf("%s(byte %d of %d, bit %d)", class, pos, len(hs), bit)
	case "wrong-hour":
		off := rapid.SampledFrom([]int64{-3, -2, 2, 3}).Draw(rt, "hourOff")
		return mk(pub, hour+off), 0, fmt.Sprintf("wrong-hour(%+d)", off)
	case "wrong-identity":
		other := refobfs4.NewIdentity(ent(52))
		id := pub
		if rapid.Bool().Draw(rt, "wrongKey") {
			id.Pub = other.Pub
		} else {
			id.NodeID = other.NodeID
		}
		return mk(id, hour), 0, "wrong-identity"
	case "replay":
		return append([]byte(nil), prior...), 0, fmt.Sprintf("replay(%d bytes)", len(prior))
	case "low-order":
		reprs := vfLowOrderReprs()
		r := reprs[rapid.IntRange(0, len(reprs)-1).Draw(rt, "lowRepr")]
		r = append([]byte(nil), r...)
		r[31] |= byte(rapid.IntRange(0, 3).Draw(rt, "lowTop")) << 6
		cl := &refobfs4.Client{ID: pub, Key: refobfs4.EKey{Repr: r}, Pad: ent(padLen), Hour: hour}
		return append([]byte(nil), cl.Handshake()...), 0, fmt.Sprintf("low-order(repr %x..)", r[:4])
	}
	panic("unknown probe class " + class)
}

// vfAcceptOne performs a valid reference-client handshake against the factory
// and returns the handshake bytes.  Used as set-up by the replay class.
func vfAcceptOne(sf base.ServerFactory, br vfBridge, ent func(int) []byte, hourOff int64) (hs []byte, accepted bool, resp []byte, cl *refobfs4.Client, sc *vfSrvConn, err error) {
	sc, err = vfOpenServerConn(sf)
	if err != nil {
		return nil, false, nil, nil, sc, err
	}
	cl = &refobfs4.Client{ID: refobfs4.Identity{Pub: br.ID.Pub, NodeID: br.ID.NodeID}, Key: refobfs4.NewEKey(ent),
		Pad: ent(refobfs4.ClientMinPad + int(ent(1)[0])), Hour: vfHourNow() + hourOff}
	hs = append([]byte(nil), cl.Handshake()...)
	sc.n.Inject(wire.A, hs)
	sc.n.ReleaseAll(wire.A)
	if err = sc.n.WaitQuiescent(wire.B); err != nil {
		return hs, false, nil, cl, sc, err
	}
	resp = sc.n.Take(wire.B)
	accepted = sc.ep.SetupDone() && sc.ep.SetupErr() == nil && len(resp) > 0
	return hs, accepted, resp, cl, sc, nil
}

var (
	vfDelayMu     sync.Mutex
	vfDelayBySeed = map[string]int{}
)

func vfIntersect(a, b []int) []int {
	var out []int
	for _, x := range a {
		for _, y := range b {
			if x == y {
				out = append(out, x)
			}
		}
	}
	return out
}

func TestVerifC03Probes(t *testing.T) {
	vfSetup(t)
	c := ev.For("C03")
	c.Rule("probes: per case one generated bridge (seed), 2-5 probe connections of generated classes (empty, random bytes up to 20000 and floods of 64 KiB .. 1 MiB, valid handshake truncated / extended / one bit flipped in representative, padding, mark or MAC, wrong hour +-2/3, wrong identity, byte-identical replay of an accepted handshake (stamped with the bridge's current hour or, in half of the set-ups, the previous / next one; in one set-up of four the genuine client's connection broke while the bridge was writing its reply - write error at byte 0, 1, 96 or 500 -, the handshake has been presented all the same; in one set-up of ten with the bridge's replay filter brought to its capacity of 102400 around it, the genuine handshake not among the eldest), in half of the cases on a connection that was opened before the genuine client connected (whose genuine session has meanwhile carried a burst sized around the handshake's own length), low-order representatives with a valid MAC), each released in generated segments with the armed deadline optionally fired in between, ended by peer disconnect or by firing the virtual deadlines; the last connection goes to a second factory built from the same seed; oracle: accepted handshakes are remembered for at least the three hours they stay valid, zero bytes written, everything sent is consumed, close only after the last armed deadline fired (unless the peer left first), deadline armed before the first read, final deadline = accept + 30 s + d with one whole d in 0..59 common to all connections of the seed; non-trivial = any class other than 'empty'; fingerprint = class, parameters, plan")
	c.Assume("deadline values are judged as intervals around the server's own clock reading (a few ms wide); cases measured on a stalled machine (> 0.5 s between accept and first deadline call) are discarded and counted")
	for _, cl := range vfProbeClasses {
		c.Floor("probe-"+cl+"/probe", 0.03)
	}
	c.Floor("probe-replay-of-handshake-whose-reply-failed/probe-replay", 0.08)
	c.Floor("probe-replay-of-handshake-stamped-adjacent-hour/probe-replay", 0.15)
	rapid.Check(t, func(rt *rapid.T) {
		rk := rapid.Uint64().Draw(rt, "randKey")
		defer vfRandSeedKey(rk)()
		br, _ := vfGenBridge(rt, []int{0, 0, 1, 2})
		ent := vfEnt(rapid.Uint64().Draw(rt, "refEntropy"))
		sf, err := vfServerFactory(br)
		if err != nil {
			rt.Fatalf("VIOL[c03-serverfactory]: %v", err)
		}
		sf2, err := vfServerFactory(br)
		if err != nil {
			rt.Fatalf("VIOL[c03-serverfactory]: %v", err)
		}
		hour0 := vfHourNow()
		// "or that replays one": a handshake stamped with hour E verifies while the
		// server's clock shows E-1..E+1, i.e. for up to three hours, so a replay
		// stays a replay only if it is remembered that long (the wait itself cannot
		// be performed here; expiry semantics are C11's)
		if osf, ok := sf.(*obfs4ServerFactory); ok && osf.replayFilter != nil {
			if fv := reflect.ValueOf(osf.replayFilter).Elem().FieldByName("ttl"); fv.IsValid() && fv.Kind() == reflect.Int64 {
				if ttl := time.Duration(fv.Int()); ttl < 3*time.Hour {
					rt.Fatalf("VIOL[c03-replay-forgotten-within-window]: accepted handshakes are remembered for %v only, but stay valid for the hour window of up to 3h: a replay older than that is answered", ttl)
				}
			}
		}
		var prior []byte
		replyFailed := false
		skewedGenuine := false
		var earlyConn *vfSrvConn
		var cand []int
		haveCand := false
		nprobes := rapid.IntRange(2, 5).Draw(rt, "probes")
		type done struct {
			fp   uint64
			cls  string
			desc string
		}
		var finished []done
		for i := 0; i < nprobes; i++ {
			class := rapid.SampledFrom(vfProbeClasses).Draw(rt, "class")
			fac := sf
			if i == nprobes-1 && class != "replay" {
				fac = sf2
			}
			if class == "replay" && prior == nil {
				if earlyConn == nil && rapid.Bool().Draw(rt, "proberConnectsFirst") {
					if ec, eerr := vfOpenServerConn(sf); eerr == nil {
						earlyConn = ec
						defer ec.n.Shutdown()
					}
				}
				// one replay set-up in ten: the bridge is busy - its replay filter is brought to
				// capacity around the genuine handshake (50 older synthetic values before it,
				// the rest behind it, then one more genuine client): the genuine handshake is
				// not among the eldest, so it must still be remembered
				atCap := false
				if osf, isO := sf.(*obfs4ServerFactory); isO && osf.replayFilter != nil && rapid.IntRange(0, 9).Draw(rt, "filterAtCapacity") == 0 {
					atCap = true
					for i := 0; i < 50; i++ {
						osf.replayFilter.TestAndSet(time.Now(), detrand.Bytes(rk^0xc03a000000000+uint64(i), 16))
					}
				}
				// one set-up in four: the genuine client's connection breaks while the bridge writes its
				// reply (write error at the first byte or later).  The handshake has been presented all
				// the same, whoever recorded it replays it: silence
				// the genuine client's clock may be off by up to an hour either way: its handshake is
				// valid (stamped with the previous / next hour of the bridge's clock) and its replay is a replay
				gOff := int64(rapid.SampledFrom([]int{0, 0, -1, 1}).Draw(rt, "genuineHourOffset"))
				if gOff != 0 {
					skewedGenuine = true
				}
				if !atCap && rapid.IntRange(0, 3).Draw(rt, "genuineReplyFails") == 0 {
					scf, ferr := vfOpenServerConn(sf)
					if scf != nil {
						defer scf.n.Shutdown()
					}
					if ferr != nil {
						rt.Fatalf("VIOL[c03-wedge]: %v", ferr)
					}
					clf := &refobfs4.Client{ID: refobfs4.Identity{Pub: br.ID.Pub, NodeID: br.ID.NodeID}, Key: refobfs4.NewEKey(ent),
						Pad: ent(refobfs4.ClientMinPad + int(ent(1)[0])), Hour: hour0 + gOff}
					hsf := append([]byte(nil), clf.Handshake()...)
					scf.n.WriteErrAt(wire.B, int64(rapid.SampledFrom([]int{0, 0, 1, 96, 500}).Draw(rt, "replyFailsAt")), vf10Err)
					scf.n.Inject(wire.A, hsf)
					scf.n.ReleaseAll(wire.A)
					if err := scf.n.WaitQuiescent(wire.B); err != nil {
						rt.Fatalf("VIOL[c03-wedge]: %v", err)
					}
					if pv, st := scf.ep.Panic(); pv != nil {
						rt.Fatalf("VIOL[c03-panic]: %v\n%s", pv, st)
					}
					if scf.n.WriteErrHits(wire.B) > 0 {
						replyFailed = true
					}
					prior = hsf
				} else {
				hs, ok, resp0, cl0, sc0, err := vfAcceptOne(sf, br, ent, gOff)
				if sc0 != nil {
					defer sc0.n.Shutdown()
				}
				if err != nil {
					rt.Fatalf("VIOL[c03-wedge]: %v", err)
				}
				if !ok {
					if vfHourNow() != hour0 {
						rt.Skip("hour changed")
					}
					rt.Fatalf("VIOL[c03-valid-rejected]: a valid fresh handshake (stamped hour %+d) was not accepted (set-up of the replay class): %v", gOff, sc0.ep.SetupErr())
				}
				prior = hs
				if atCap {
					osf := sf.(*obfs4ServerFactory)
					for i := 0; i < 102400-51; i++ {
						osf.replayFilter.TestAndSet(time.Now(), detrand.Bytes(rk^0xc03b000000000+uint64(i), 16))
					}
					if _, ok2, _, _, scx, _ := vfAcceptOne(sf, br, ent, 0); scx != nil {
						defer scx.n.Shutdown()
						if !ok2 && vfHourNow() == hour0 {
							rt.Fatalf("VIOL[c03-valid-rejected]: a valid fresh handshake was not accepted by a bridge whose replay filter is full")
						}
					}
				}
				// the genuine session goes on: traffic in one segment, sized around the
				// handshake's own length (what the bridge remembers about the handshake
				// must not live in memory that session traffic reuses)
				if target := rapid.SampledFrom([]int{0, len(hs) - 40, len(hs) - 16, len(hs), len(hs) + 200, 8192, 20000}).Draw(rt, "sessionBurst"); target > 0 {
					if sh, err := cl0.ParseResponse(resp0); err == nil {
						c2s, _ := refobfs4.Keys(sh.KeySeed)
						enc := refobfs4.NewEncoder(c2s)
						var burst []byte
						sentLen := 0
						for len(burst) < target {
							k := target - len(burst) - refobfs4.HeaderLen
							if k > refobfs4.MaxPacketPayload {
								k = refobfs4.MaxPacketPayload
							}
							if k < 1 {
								k = 1
							}
							burst = append(burst, enc.Frame(refobfs4.PktPayload, vfCounterStream(0, sentLen, k), 0)...)
							sentLen += k
						}
						sc0.n.Inject(wire.A, burst)
						sc0.n.ReleaseAll(wire.A)
						if err := sc0.n.WaitQuiescent(wire.B); err != nil {
							rt.Fatalf("VIOL[c03-wedge]: %v", err)
						}
					}
				}
				}
			}
			probe, avoid, desc := vfGenProbe(rt, class, br, ent, hour0, prior)
			plan := vfGenPlan(rt, len(probe), avoid)
			peerFirst := rapid.IntRange(0, 3).Draw(rt, "peerDisconnectsFirst") == 0
			var sc *vfSrvConn
			var err error
			if class == "replay" && fac == sf && earlyConn != nil {
				// the prober connected BEFORE the genuine client did and sat idle
				sc, earlyConn = earlyConn, nil
				desc += " on a connection opened before the genuine one"
			} else {
				sc, err = vfOpenServerConn(fac)
				if sc != nil {
					defer sc.n.Shutdown()
				}
			}
			if err != nil {
				rt.Fatalf("VIOL[c03-wedge]: %v", err)
			}
			if msg := vfRunProbe(sc, probe, plan); msg != "" {
				rt.Fatalf("%s\nprobe %s plan %v", msg, desc, plan)
			}
			if sc.n.Closed(wire.B) && !plan.anyFire() {
				rt.Fatalf("VIOL[c03-early-close]: server closed the connection before any deadline fired\nprobe %s plan %v", desc, plan)
			}
			if msg := vfFinish(sc, peerFirst); msg != "" {
				rt.Fatalf("%s\nprobe %s plan %v", msg, desc, plan)
			}
			rep, msg := vfCheckSilent(sc, peerFirst)
			if msg != "" {
				if vfHourNow() != hour0 {
					rt.Skip("hour changed")
				}
				rt.Fatalf("%s\nprobe %s plan %v peerDisconnectsFirst=%v", msg, desc, plan, peerFirst)
			}
			if rep.stalled {
				c.Excluded("close-delay not judged: machine stalled between accept and first deadline call", 1)
			} else if rep.finalArmed {
				if !haveCand {
					cand, haveCand = rep.dCandidates, true
				} else {
					nc := vfIntersect(cand, rep.dCandidates)
					if len(nc) == 0 {
						rt.Fatalf("VIOL[c03-close-time-differs]: close delay after accept+30s is %v s for this connection but %v s for earlier connections of the same bridge seed\nprobe %s plan %v", rep.dCandidates, cand, desc, plan)
					}
					cand = nc
				}
			}
			finished = append(finished, done{ev.Hash(class, desc, fmt.Sprint(plan), peerFirst), class, desc + fmt.Sprintf(" plan=%v peerFirst=%v", plan, peerFirst)})
		}
		if haveCand && len(cand) == 1 {
			vfDelayMu.Lock()
			vfDelayBySeed[string(br.Seed)] = cand[0]
			vfDelayMu.Unlock()
		}
		for _, d := range finished {
			d := d
			cl := []string{"probe", "probe-" + d.cls}
			if d.cls == "replay" && replyFailed {
				cl = append(cl, "probe-replay-of-handshake-whose-reply-failed")
			}
			if d.cls == "replay" && skewedGenuine {
				cl = append(cl, "probe-replay-of-handshake-stamped-adjacent-hour")
			}
			c.Case(d.fp, d.cls != "empty", cl, func() any { return map[string]any{"probe": d.desc, "seed": ev.Hex(br.Seed)} })
		}
	})
	vfDelayMu.Lock()
	defer vfDelayMu.Unlock()
	distinct := map[int]bool{}
	for _, d := range vfDelayBySeed {
		distinct[d] = true
	}
	c.Set("distinct_close_delays_over_seeds", len(distinct))
	c.Set("seeds_with_measured_close_delay", len(vfDelayBySeed))
	if len(vfDelayBySeed) >= 20 && len(distinct) < 2 {
		t.Fatalf("VIOL[c03-close-time-constant]: %d different bridge seeds all close after the same delay %v: the close time is not derived from the seed", len(vfDelayBySeed), distinct)
	}
}

func (p vfSendPlan) anyFire() bool {
	for _, f := range p.Fire {
		if f {
			return true
		}
	}
	return false
}

// ---- C04 ------------------------------------------------------------------------------------

type vfC04Op struct {
	Kind string // fresh, replay, concurrent
	Off  int64
	Idx  int
	K    int
}

func (o vfC04Op) String() string {
	switch o.Kind {
	case "fresh":
		return fmt.Sprintf("fresh(%+d)", o.Off)
	case "replay":
		return fmt.Sprintf("replay(#%d)", o.Idx)
	case "twin":
		return fmt.Sprintf("damagedCopyThenGenuine(%+d)", o.Off)
	}
	return fmt.Sprintf("concurrentSame(%d,%+d)", o.K, o.Off)
}

func TestVerifC04History(t *testing.T) {
	vfSetup(t)
	c := ev.For("C04")
	c.Rule("history: per case one server factory and 2-12 operations fresh(hour offset -3..+3) / replay(of any earlier handshake) / concurrentSame(k copies of one fresh handshake on k connections at once) / damagedCopyThenGenuine(a copy of a fresh handshake with one padding bit altered — same mark and MAC bytes — is submitted and refused, then the handshake itself, which nothing has accepted yet, must be accepted), crafted by the reference client; oracle = set model: fresh(o) is accepted iff |o| <= 1 and then the reply verifies under the hour the client stamped and data flows both ways; every replay and every out-of-window handshake is treated exactly like invalid input (silent, seeded close time); fresh ones after replays are still accepted; of k concurrent copies exactly one is accepted; non-trivial = history with a replay of an accepted handshake and a non-zero hour offset; fingerprint = op list")
	c.Assume("the 3 h replay TTL cannot be waited for: expiry is decided by C11 on caller-supplied time; here the clock is the real (monotone) clock and cases that straddle an hour change are discarded")
	c.Floor("history-with-concurrent/history", 0.10)
	c.Floor("history-with-damaged-copy-first/history", 0.10)
	rapid.Check(t, func(rt *rapid.T) {
		rk := rapid.Uint64().Draw(rt, "randKey")
		defer vfRandSeedKey(rk)()
		br, _ := vfGenBridge(rt, []int{0, 0, 0, 1})
		ent := vfEnt(rapid.Uint64().Draw(rt, "refEntropy"))
		sf, err := vfServerFactory(br)
		if err != nil {
			rt.Fatalf("VIOL[c04-serverfactory]: %v", err)
		}
		hour0 := vfHourNow()
		// A handshake stamped with hour E is valid while the server's clock shows
		// E-1..E+1, i.e. for up to three hours: the filter must remember that long.
		// (The wait itself cannot be performed; expiry semantics are C11's.)
		if osf, ok := sf.(*obfs4ServerFactory); ok && osf.replayFilter != nil {
			ttl := time.Duration(reflect.ValueOf(osf.replayFilter).Elem().FieldByName("ttl").Int())
			if ttl < 3*time.Hour {
				rt.Fatalf("VIOL[c04-ttl-shorter-than-window]: the replay filter forgets handshakes after %v, but a stamped hour stays valid for up to 3h: a replay is accepted once the entry has expired", ttl)
			}
		}
		type sent struct {
			hs       []byte
			accepted bool
			off      int64
		}
		var all []sent
		var ops []vfC04Op
		var opens []*vfSrvConn
		defer func() {
			for _, sc := range opens {
				sc.n.Shutdown()
			}
		}()
		sessionTraffic := false
		fail := func(f string, a ...any) {
			if vfHourNow() != hour0 {
				rt.Skip("hour changed during the case")
			}
			rt.Fatalf(f+"\nhistory: %v", append(a, ops)...)
		}
		mkClient := func(off int64) *refobfs4.Client {
			pad := refobfs4.ClientMinPad + rapid.IntRange(0, 300).Draw(rt, "pad")
			return &refobfs4.Client{ID: refobfs4.Identity{Pub: br.ID.Pub, NodeID: br.ID.NodeID}, Key: refobfs4.NewEKey(ent), Pad: ent(pad), Hour: hour0 + off}
		}
		// submit sends hs on a new connection; returns whether it was accepted
		submit := func(hs []byte, cl *refobfs4.Client, wantAccept bool, what string) bool {
			sc, err := vfOpenServerConn(sf)
			if sc != nil {
				opens = append(opens, sc)
			}
			if err != nil {
				fail("VIOL[c04-wedge]: %v", err)
			}
			sc.n.Inject(wire.A, hs)
			sc.n.ReleaseAll(wire.A)
			if err := sc.n.WaitQuiescent(wire.B); err != nil {
				fail("VIOL[c04-wedge]: %v", err)
			}
			if pv, st := sc.ep.Panic(); pv != nil {
				fail("VIOL[c04-panic]: %v\n%s", pv, st)
			}
			accepted := sc.ep.SetupDone() && sc.ep.SetupErr() == nil
			if accepted != wantAccept {
				if wantAccept {
					fail("VIOL[c04-fresh-rejected]: %s should be accepted but was not (WrapConn: done=%v err=%v)", what, sc.ep.SetupDone(), sc.ep.SetupErr())
				}
				fail("VIOL[c04-accepted]: %s must be rejected but the server accepted it and wrote %d bytes", what, sc.n.Written(wire.B))
			}
			if accepted {
				resp := sc.n.Take(wire.B)
				if cl != nil {
					sh, err := cl.ParseResponse(resp)
					if err != nil {
						fail("VIOL[c04-reply-not-bound-to-client-hour]: %s accepted, but the reply does not verify under the hour the client stamped (%d): %v", what, cl.Hour, err)
					}
					// data flows: one frame each way
					c2s, s2c := refobfs4.Keys(sh.KeySeed)
					enc, dec := refobfs4.NewEncoder(c2s), refobfs4.NewDecoder(s2c)
					dec.Feed(resp[sh.Len:])
					if _, err := dec.All(); err != nil {
						fail("VIOL[c04-session]: seed frame does not open: %v", err)
					}
					msg := vfCounterStream(0, 0, 100)
					sc.n.Inject(wire.A, enc.Frame(refobfs4.PktPayload, msg, 0))
					sc.n.ReleaseAll(wire.A)
					if err := sc.n.WaitQuiescent(wire.B); err != nil {
						fail("VIOL[c04-wedge]: %v", err)
					}
					if !bytes.Equal(sc.ep.Got(), msg) {
						fail("VIOL[c04-session]: accepted session does not carry data to the server (%d of %d bytes, err %v)", sc.ep.GotLen(), len(msg), sc.ep.ReadErr())
					}
					// more session traffic in one segment, sized around the handshake's own
					// length (whatever the server remembered about the handshake must not
					// live in memory that session traffic reuses)
					if target := rapid.SampledFrom([]int{0, 0, len(hs) - 40, len(hs) - 16, len(hs), len(hs) + 200, 1448, 8192, 20000}).Draw(rt, "sessionBurst"); target > 0 {
						var burst []byte
						sentLen := len(msg)
						for len(burst) < target {
							k := target - len(burst) - refobfs4.HeaderLen
							if k > refobfs4.MaxPacketPayload {
								k = refobfs4.MaxPacketPayload
							}
							if k < 1 {
								k = 1
							}
							burst = append(burst, enc.Frame(refobfs4.PktPayload, vfCounterStream(0, sentLen, k), 0)...)
							sentLen += k
						}
						sc.n.Inject(wire.A, burst)
						sc.n.ReleaseAll(wire.A)
						if err := sc.n.WaitQuiescent(wire.B); err != nil {
							fail("VIOL[c04-wedge]: %v", err)
						}
						if !bytes.Equal(sc.ep.Got(), vfCounterStream(0, 0, sentLen)) {
							fail("VIOL[c04-session]: accepted session does not carry a burst of %d bytes to the server (%d of %d bytes, err %v)", len(burst), sc.ep.GotLen(), sentLen, sc.ep.ReadErr())
						}
						sessionTraffic = true
					}
				}
				return true
			}
			// rejected: must look exactly like any invalid handshake
			if msg := vfMidCheck(sc); msg != "" {
				fail("%s (%s)", strings.Replace(msg, "VIOL[c03-", "VIOL[c04-", 1), what)
			}
			if sc.n.Closed(wire.B) {
				fail("VIOL[c04-early-close]: %s: server closed the connection at once instead of at its seeded close time", what)
			}
			peerFirst := rapid.IntRange(0, 3).Draw(rt, "peerDisconnectsFirst") == 0
			if msg := vfFinish(sc, peerFirst); msg != "" {
				fail("%s (%s)", strings.Replace(msg, "VIOL[c03-", "VIOL[c04-", 1), what)
			}
			if _, msg := vfCheckSilent(sc, peerFirst); msg != "" {
				fail("%s (%s)", strings.Replace(msg, "VIOL[c03-", "VIOL[c04-", 1), what)
			}
			return false
		}
		nops := rapid.IntRange(2, 12).Draw(rt, "ops")
		hasReplayOfAccepted, hasOffset, hasConcurrent, hasTwin := false, false, false, false
		_ = sessionTraffic
		for i := 0; i < nops; i++ {
			k := rapid.IntRange(0, 10).Draw(rt, "op")
			switch {
			case k == 10:
				// a damaged copy of a handshake reaches the bridge before the handshake itself (same
				// mark and MAC bytes, one padding byte altered: the MAC does not verify); nothing has been
				// accepted yet, so the genuine one is still fresh
				off := int64(rapid.IntRange(-1, 1).Draw(rt, "hourOffT"))
				op := vfC04Op{Kind: "twin", Off: off}
				ops = append(ops, op)
				hasTwin = true
				cl := mkClient(off)
				hs := append([]byte(nil), cl.Handshake()...)
				twin := append([]byte(nil), hs...)
				pos := refobfs4.ReprLen + rapid.IntRange(0, len(hs)-refobfs4.ReprLen-refobfs4.MarkLen-refobfs4.MacLen-1).Draw(rt, "twinPos")
				twin[pos] ^= byte(1 << uint(rapid.IntRange(0, 7).Draw(rt, "twinBit")))
				submit(twin, nil, false, fmt.Sprintf("damaged copy (padding byte %d altered) of a handshake not submitted yet", pos))
				all = append(all, sent{twin, false, off})
				acc := submit(hs, cl, true, op.String()+": the genuine handshake after its damaged copy was refused")
				all = append(all, sent{hs, acc, off})
			case k < 5 || len(all) == 0:
				off := int64(rapid.IntRange(-3, 3).Draw(rt, "hourOff"))
				if rapid.IntRange(0, 2).Draw(rt, "offZero") == 0 {
					off = 0
				}
				op := vfC04Op{Kind: "fresh", Off: off}
				ops = append(ops, op)
				cl := mkClient(off)
				hs := append([]byte(nil), cl.Handshake()...)
				want := off >= -1 && off <= 1
				acc := submit(hs, cl, want, op.String())
				all = append(all, sent{hs, acc, off})
				if off != 0 {
					hasOffset = true
				}
			case k < 8:
				idx := rapid.IntRange(0, len(all)-1).Draw(rt, "replayIdx")
				op := vfC04Op{Kind: "replay", Idx: idx}
				ops = append(ops, op)
				submit(all[idx].hs, nil, false, fmt.Sprintf("%s of a handshake that was %s", op, map[bool]string{true: "accepted", false: "rejected"}[all[idx].accepted]))
				if all[idx].accepted {
					hasReplayOfAccepted = true
				}
			default:
				kk := rapid.IntRange(2, 6).Draw(rt, "copies")
				off := int64(rapid.IntRange(-1, 1).Draw(rt, "hourOffC"))
				op := vfC04Op{Kind: "concurrent", K: kk, Off: off}
				ops = append(ops, op)
				hasConcurrent = true
				cl := mkClient(off)
				hs := append([]byte(nil), cl.Handshake()...)
				scs := make([]*vfSrvConn, kk)
				for j := range scs {
					sc, err := vfOpenServerConn(sf)
					if sc != nil {
						opens = append(opens, sc)
					}
					if err != nil {
						fail("VIOL[c04-wedge]: %v", err)
					}
					sc.n.Inject(wire.A, hs)
					scs[j] = sc
				}
				var wg sync.WaitGroup
				start := make(chan struct{})
				for _, sc := range scs {
					wg.Add(1)
					go func(sc *vfSrvConn) {
						defer wg.Done()
						<-start
						sc.n.ReleaseAll(wire.A)
					}(sc)
				}
				close(start)
				wg.Wait()
				accepted := 0
				for _, sc := range scs {
					if err := sc.n.WaitQuiescent(wire.B); err != nil {
						fail("VIOL[c04-wedge]: %v", err)
					}
					if pv, st := sc.ep.Panic(); pv != nil {
						fail("VIOL[c04-panic]: %v\n%s", pv, st)
					}
					if sc.ep.SetupDone() && sc.ep.SetupErr() == nil {
						accepted++
						if _, err := cl.ParseResponse(sc.n.Take(wire.B)); err != nil {
							fail("VIOL[c04-reply-not-bound-to-client-hour]: %s: %v", op, err)
						}
					} else if sc.n.Written(wire.B) != 0 {
						fail("VIOL[c04-not-silent]: %s: a rejected copy got %d bytes", op, sc.n.Written(wire.B))
					}
				}
				if accepted != 1 {
					fail("VIOL[c04-concurrent-accepts]: %s: %d of %d simultaneous copies of one handshake were accepted, want exactly 1", op, accepted, kk)
				}
				all = append(all, sent{hs, true, off})
			}
		}
		if vfHourNow() != hour0 {
			rt.Skip("hour changed during the case")
		}
		var os []string
		for _, o := range ops {
			os = append(os, o.String())
		}
		cls := []string{"history"}
		if hasConcurrent {
			cls = append(cls, "history-with-concurrent")
		}
		if hasReplayOfAccepted {
			cls = append(cls, "history-with-replay-of-accepted")
		}
		if hasTwin {
			cls = append(cls, "history-with-damaged-copy-first")
		}
		c.Case(ev.Hash(strings.Join(os, ",")), hasReplayOfAccepted && hasOffset, cls, func() any { return map[string]any{"ops": os, "seed": ev.Hex(br.Seed)} })
	})
	_ = detrand.Used
}

// TestVerifC04NearCapacity: "at most once while fewer than 102400 handshakes
// are being remembered".  Remembering ~100000 real handshakes takes too long for
// every run, so the bridge's own replay filter is filled through its exported
// API with synthetic entries (distinct 16-byte values, current time) between the
// acceptance of a real handshake and its replay.
func TestVerifC04NearCapacity(t *testing.T) {
	vfSetup(t)
	c := ev.For("C04")
	c.Rule("near-capacity: per fill level N in {1000, 86399, 86400, 100000, 102398} one fresh server factory: a real handshake A is accepted, N synthetic values are inserted into the factory's replay filter through its exported TestAndSet (so that N+1 < 102400 handshakes are remembered), then a byte-identical replay of A must be refused like invalid input and a fresh handshake B must be accepted; plus one at-capacity case (50 eldest synthetic values, a real handshake, synthetic values up to exactly 102400, five fresh handshakes each evicting one eldest value: the real one must still be refused as a replay) and one mixed-ages case (three back-dated synthetic values that reach the TTL 2 s after a real handshake was accepted: after 3 s and an unrelated handshake the real one must still be refused as a replay); non-trivial = N >= 86399; fingerprint = N")
	for idx, n := range []int{1000, 86399, 86400, 100000, 102398} {
		br := vfBridge{ID: refobfs4.NewIdentity(vfEnt(0xc04c0+uint64(idx))(52)), Seed: vfEnt(0xc04d0 + uint64(idx))(24)}
		ent := vfEnt(0xc04e0 + uint64(idx))
		sf, err := vfServerFactory(br)
		if err != nil {
			t.Fatalf("VIOL[c04-serverfactory]: %v", err)
		}
		osf, ok := sf.(*obfs4ServerFactory)
		if !ok || osf.replayFilter == nil {
			t.Fatalf("INFRA: server factory is %T", sf)
		}
		hour0 := vfHourNow()
		hs, accepted, _, _, sc0, err := vfAcceptOne(sf, br, ent, 0)
		if sc0 != nil {
			defer sc0.n.Shutdown()
		}
		if err != nil || !accepted {
			if vfHourNow() != hour0 {
				t.Skip("hour changed")
			}
			t.Fatalf("VIOL[c04-fresh-rejected]: a fresh handshake was not accepted (err %v)", err)
		}
		for i := 0; i < n; i++ {
			v := detrand.Bytes(0xc04f000000000+uint64(idx)<<32+uint64(i), 16)
			if osf.replayFilter.TestAndSet(time.Now(), v) {
				t.Fatalf("INFRA: synthetic value %d reported as seen", i)
			}
		}
		// replay of A
		sc, err := vfOpenServerConn(sf)
		if sc != nil {
			defer sc.n.Shutdown()
		}
		if err != nil {
			t.Fatalf("VIOL[c04-wedge]: %v", err)
		}
		sc.n.Inject(wire.A, hs)
		sc.n.ReleaseAll(wire.A)
		if err := sc.n.WaitQuiescent(wire.B); err != nil {
			t.Fatalf("VIOL[c04-wedge]: %v", err)
		}
		if w := sc.n.Written(wire.B); w != 0 || (sc.ep.SetupDone() && sc.ep.SetupErr() == nil) {
			if vfHourNow() != hour0 {
				t.Skip("hour changed")
			}
			t.Fatalf("VIOL[c04-accepted]: replay of an accepted handshake was accepted again (server wrote %d bytes) although only %d handshakes (< 102400) are being remembered", w, n+1)
		}
		// a fresh one still works
		_, accepted, _, _, sc2, err := vfAcceptOne(sf, br, ent, 0)
		if sc2 != nil {
			defer sc2.n.Shutdown()
		}
		if err != nil || !accepted {
			if vfHourNow() != hour0 {
				t.Skip("hour changed")
			}
			t.Fatalf("VIOL[c04-fresh-rejected]: a fresh handshake was not accepted with %d handshakes remembered (err %v)", n+2, err)
		}
		c.Case(ev.Hash("near-capacity", n), n >= 86399, []string{"near-capacity"}, func() any { return map[string]any{"unit": "near-capacity", "remembered": n + 1} })
	}
	// at capacity: 50 synthetic values first (the eldest), then a real handshake A,
	// then synthetic values up to exactly 102400 remembered; every further
	// handshake evicts ONE eldest value (oldest-first, C11) - never A, which is
	// younger than 50 others - so A stays a replay while five fresh handshakes
	// are accepted.
	{
		br := vfBridge{ID: refobfs4.NewIdentity(vfEnt(0xc0530)(52)), Seed: vfEnt(0xc0531)(24)}
		ent := vfEnt(0xc0532)
		sf, err := vfServerFactory(br)
		if err != nil {
			t.Fatalf("VIOL[c04-serverfactory]: %v", err)
		}
		osf := sf.(*obfs4ServerFactory)
		hour0 := vfHourNow()
		for i := 0; i < 50; i++ {
			osf.replayFilter.TestAndSet(time.Now(), detrand.Bytes(0xc0540000000+uint64(i), 16))
		}
		hs, accepted, _, _, sc0, err := vfAcceptOne(sf, br, ent, 0)
		if sc0 != nil {
			defer sc0.n.Shutdown()
		}
		if err != nil || !accepted {
			if vfHourNow() != hour0 {
				t.Skip("hour changed")
			}
			t.Fatalf("VIOL[c04-fresh-rejected]: a fresh handshake was not accepted (err %v)", err)
		}
		for i := 0; i < 102400-51; i++ {
			osf.replayFilter.TestAndSet(time.Now(), detrand.Bytes(0xc0550000000+uint64(i), 16))
		}
		for k := 0; k < 5; k++ {
			_, acc, _, _, scx, err := vfAcceptOne(sf, br, ent, 0)
			if scx != nil {
				defer scx.n.Shutdown()
			}
			if err != nil || !acc {
				if vfHourNow() != hour0 {
					t.Skip("hour changed")
				}
				t.Fatalf("VIOL[c04-fresh-rejected]: a fresh handshake was not accepted by a bridge whose replay filter is full (err %v)", err)
			}
		}
		sc, err := vfOpenServerConn(sf)
		if sc != nil {
			defer sc.n.Shutdown()
		}
		if err != nil {
			t.Fatalf("VIOL[c04-wedge]: %v", err)
		}
		sc.n.Inject(wire.A, hs)
		sc.n.ReleaseAll(wire.A)
		if err := sc.n.WaitQuiescent(wire.B); err != nil {
			t.Fatalf("VIOL[c04-wedge]: %v", err)
		}
		if w := sc.n.Written(wire.B); w != 0 || (sc.ep.SetupDone() && sc.ep.SetupErr() == nil) {
			if vfHourNow() != hour0 {
				t.Skip("hour changed")
			}
			t.Fatalf("VIOL[c04-accepted]: with the replay filter at capacity (102400 remembered) five further handshakes were accepted, each evicting one eldest value; the replay of a handshake that 50 older values precede was accepted again (server wrote %d bytes): a full filter must evict oldest-first, not forget younger handshakes", w)
		}
		c.Case(ev.Hash("at-capacity"), true, []string{"near-capacity", "at-capacity"}, func() any { return map[string]any{"unit": "near-capacity", "case": "at capacity"} })
	}
	// mixed ages: an older remembered value reaches the TTL while a younger
	// accepted handshake is still inside it - only the old one may be forgotten.
	// The old value is inserted back-dated (TTL minus 2 s ago) through the
	// filter's exported API, the real handshake follows, then 3 s are waited.
	{
		br := vfBridge{ID: refobfs4.NewIdentity(vfEnt(0xc0510)(52)), Seed: vfEnt(0xc0511)(24)}
		ent := vfEnt(0xc0512)
		sf, err := vfServerFactory(br)
		if err != nil {
			t.Fatalf("VIOL[c04-serverfactory]: %v", err)
		}
		osf := sf.(*obfs4ServerFactory)
		ttl := time.Duration(reflect.ValueOf(osf.replayFilter).Elem().FieldByName("ttl").Int())
		hour0 := vfHourNow()
		for i := 0; i < 3; i++ {
			osf.replayFilter.TestAndSet(time.Now().Add(-ttl+2*time.Second+time.Duration(i)*time.Millisecond), detrand.Bytes(0xc0520+uint64(i), 16))
		}
		hs, accepted, _, _, sc0, err := vfAcceptOne(sf, br, ent, 0)
		if sc0 != nil {
			defer sc0.n.Shutdown()
		}
		if err != nil || !accepted {
			if vfHourNow() != hour0 {
				t.Skip("hour changed")
			}
			t.Fatalf("VIOL[c04-fresh-rejected]: a fresh handshake was not accepted (err %v)", err)
		}
		time.Sleep(3 * time.Second)
		// something unrelated arrives (triggers the purge of the old values) ...
		if _, acc, _, _, scx, err := vfAcceptOne(sf, br, ent, 0); scx != nil {
			defer scx.n.Shutdown()
			if err != nil || !acc {
				if vfHourNow() != hour0 {
					t.Skip("hour changed")
				}
				t.Fatalf("VIOL[c04-fresh-rejected]: a fresh handshake was not accepted after older entries expired (err %v)", err)
			}
		}
		// ... and the younger handshake is replayed
		sc, err := vfOpenServerConn(sf)
		if sc != nil {
			defer sc.n.Shutdown()
		}
		if err != nil {
			t.Fatalf("VIOL[c04-wedge]: %v", err)
		}
		sc.n.Inject(wire.A, hs)
		sc.n.ReleaseAll(wire.A)
		if err := sc.n.WaitQuiescent(wire.B); err != nil {
			t.Fatalf("VIOL[c04-wedge]: %v", err)
		}
		if w := sc.n.Written(wire.B); w != 0 || (sc.ep.SetupDone() && sc.ep.SetupErr() == nil) {
			if vfHourNow() != hour0 {
				t.Skip("hour changed")
			}
			t.Fatalf("VIOL[c04-accepted]: a handshake accepted 3 s ago was accepted again (server wrote %d bytes) after OLDER remembered values had reached the TTL of %v: expiry of old entries must not forget younger ones", w, ttl)
		}
		c.Case(ev.Hash("mixed-ages"), true, []string{"near-capacity", "mixed-ages"}, func() any { return map[string]any{"unit": "near-capacity", "case": "mixed ages"} })
	}
}

// TestVerifC04HourRollover runs only when the real clock is about to reach a full
// hour (the code reads time.Now() itself and offers no way to move its clock):
// handshakes accepted before the rollover must still be refused as replays after
// it, while they are inside the +-1 h window, and fresh ones must still work.
func TestVerifC04HourRollover(t *testing.T) {
	vfSetup(t)
	c := ev.For("C04")
	c.Rule("hour-rollover (opportunistic): when the next full hour of the real clock is at most B seconds away (quick B = 10, thorough B = 150, VERIF_C04_WAIT_ROLLOVER overrides), handshakes stamped with the current and the next hour are accepted before the rollover and replayed after it; four connections are accepted at most 15 s before the rollover and receive their handshakes (stamped +1, -2, 0, -1 relative to the new hour) after it; oracle: every replay is refused like invalid input although the server's hour has changed, fresh handshakes are accepted, the straddling connections judge their handshake by the hour in force when it arrives; otherwise the unit is skipped and counted")
	budget := 10
	if ev.Thorough() {
		budget = 150
	}
	budget = ev.IntEnv("VERIF_C04_WAIT_ROLLOVER", budget)
	left := 3600 - int(time.Now().Unix()%3600)
	if left > budget || left < 3 {
		c.Excluded("hour-rollover unit skipped: the next full hour was too far away (or too close) at run time", 1)
		return
	}
	br := vfBridge{ID: refobfs4.NewIdentity(vfEnt(0xc04a)(52)), Seed: vfEnt(0xc04b)(24)}
	sf, err := vfServerFactory(br)
	if err != nil {
		t.Fatalf("VIOL[c04-serverfactory]: %v", err)
	}
	ent := vfEnt(0xc04c)
	hour0 := vfHourNow()
	type acc struct {
		hs  []byte
		off int64
	}
	var accepted []acc
	for _, off := range []int64{0, 1, 0, 1} {
		hs, ok, _, _, sc, err := vfAcceptOne(sf, br, ent, off)
		if sc != nil {
			defer sc.n.Shutdown()
		}
		if err != nil {
			t.Fatalf("VIOL[c04-wedge]: %v", err)
		}
		if !ok {
			if vfHourNow() != hour0 {
				c.Excluded("hour changed while the first half of the rollover unit ran", 1)
				return
			}
			t.Fatalf("VIOL[c04-fresh-rejected]: fresh handshake stamped %+d was not accepted before the rollover", off)
		}
		accepted = append(accepted, acc{hs, off})
	}
	// connections that are ACCEPTED before the rollover (at most 15 s before it: the 30 s handshake timer is
	// running) and whose handshake arrives after it: the hour window is the one of the moment the handshake
	// is evaluated
	var early []*vfSrvConn
	for vfHourNow() == hour0 {
		if early == nil && 3600-int(time.Now().Unix()%3600) <= 15 {
			early = []*vfSrvConn{}
			for k := 0; k < 4; k++ {
				sc, err := vfOpenServerConn(sf)
				if sc != nil {
					defer sc.n.Shutdown()
				}
				if err != nil {
					t.Fatalf("VIOL[c04-wedge]: %v", err)
				}
				early = append(early, sc)
			}
		}
		time.Sleep(200 * time.Millisecond)
	}
	time.Sleep(300 * time.Millisecond)
	hour1 := vfHourNow()
	for k, sc := range early {
		off := []int64{1, -2, 0, -1}[k]
		cl := &refobfs4.Client{ID: refobfs4.Identity{Pub: br.ID.Pub, NodeID: br.ID.NodeID}, Key: refobfs4.NewEKey(ent),
			Pad: ent(refobfs4.ClientMinPad + 10*k), Hour: hour1 + off}
		sc.n.Inject(wire.A, append([]byte(nil), cl.Handshake()...))
		sc.n.ReleaseAll(wire.A)
		if err := sc.n.WaitQuiescent(wire.B); err != nil {
			t.Fatalf("VIOL[c04-wedge]: %v", err)
		}
		if pv, st := sc.ep.Panic(); pv != nil {
			t.Fatalf("VIOL[c04-panic]: %v\n%s", pv, st)
		}
		got := sc.ep.SetupDone() && sc.ep.SetupErr() == nil
		want := off >= -1 && off <= 1
		if got != want {
			t.Fatalf("VIOL[c04-window-of-accept-time]: a connection accepted shortly before the full hour receives, after the rollover, a handshake stamped %+d relative to the bridge's clock at that moment: accepted=%v, want %v (the hour window must be the one in force when the handshake is evaluated)", off, got, want)
		}
		if want {
			if _, err := cl.ParseResponse(sc.n.Take(wire.B)); err != nil {
				t.Fatalf("VIOL[c04-reply-not-bound-to-client-hour]: handshake stamped %+d on a connection that straddles the full hour: %v", off, err)
			}
		} else if w := sc.n.Written(wire.B); w != 0 {
			t.Fatalf("VIOL[c04-not-silent]: out-of-window handshake (%+d) on a connection that straddles the full hour got %d bytes", off, w)
		}
	}
	if early != nil {
		c.Class("hour-rollover-straddling-connections", int64(len(early)))
	}
	for i, a := range accepted {
		sc, err := vfOpenServerConn(sf)
		if sc != nil {
			defer sc.n.Shutdown()
		}
		if err != nil {
			t.Fatalf("VIOL[c04-wedge]: %v", err)
		}
		sc.n.Inject(wire.A, a.hs)
		sc.n.ReleaseAll(wire.A)
		if err := sc.n.WaitQuiescent(wire.B); err != nil {
			t.Fatalf("VIOL[c04-wedge]: %v", err)
		}
		if sc.n.Written(wire.B) != 0 || (sc.ep.SetupDone() && sc.ep.SetupErr() == nil) {
			t.Fatalf("VIOL[c04-replay-accepted-after-hour-change]: handshake #%d (stamped %+d relative to the hour before the rollover) was accepted before the server's hour changed and is accepted AGAIN after it (byte-identical replay, still inside the +-1 h window)", i, a.off)
		}
		if msg := vfFinish(sc, i%2 == 0); msg != "" {
			t.Fatalf("%s", strings.Replace(msg, "VIOL[c03-", "VIOL[c04-", 1))
		}
		if _, msg := vfCheckSilent(sc, i%2 == 0); msg != "" {
			t.Fatalf("%s (replay after the hour change)", strings.Replace(msg, "VIOL[c03-", "VIOL[c04-", 1))
		}
	}
	// fresh ones (stamped with the new hour and the previous one) are still accepted
	for _, off := range []int64{0, -1} {
		_, ok, _, _, sc, err := vfAcceptOne(sf, br, ent, off)
		if sc != nil {
			defer sc.n.Shutdown()
		}
		if err != nil || !ok {
			t.Fatalf("VIOL[c04-fresh-rejected]: fresh handshake stamped %+d was not accepted after the rollover (%v)", off, err)
		}
	}
	c.Bulk(int64(len(accepted)+2), int64(len(accepted)))
	c.Class("hour-rollover-replays", int64(len(accepted)))
	c.Sample(ev.Hash("rollover", hour0), map[string]any{"unit": "hour-rollover", "hour_before": hour0, "replays_refused_after_rollover": len(accepted)})
}
