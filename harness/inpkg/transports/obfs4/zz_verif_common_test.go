//go:build verif

package obfs4

// Shared fixture of the obfs4 checks (C01-C06, C09, C10): real endpoints built
// through the public factories, connected by the harness wire.

import (
	"encoding/hex"
	"flag"
	"fmt"
	"net"
	"os"
	"strconv"
	"sync"
	"testing"
	"time"

	"gitlab.torproject.org/tpo/anti-censorship/pluggable-transports/goptlib"
	"pgregory.net/rapid"

	"gitlab.com/yawning/obfs4.git/internal/verifkit/detrand"
	"gitlab.com/yawning/obfs4.git/internal/verifkit/drive"
	"gitlab.com/yawning/obfs4.git/internal/verifkit/refobfs4"
	"gitlab.com/yawning/obfs4.git/internal/verifkit/wire"
	"gitlab.com/yawning/obfs4.git/transports/base"
)

var (
	vfOnce     sync.Once
	vfSelfErr  error
	vfStateDir string
)

// vfSetup anchors the reference implementation (a failure here is an
// infrastructure error, not a violation) and creates the scratch state dir.
func vfSetup(t testing.TB) {
	vfOnce.Do(func() {
		vfSelfErr = refobfs4.SelfTest()
		d, err := os.MkdirTemp(".", "vfstate")
		if err != nil {
			vfSelfErr = err
		}
		vfStateDir = d
	})
	if vfSelfErr != nil {
		t.Fatalf("INFRA: reference self test failed: %v", vfSelfErr)
	}
}

// vfBridge is a generated bridge configuration.
type vfBridge struct {
	ID     refobfs4.Identity
	Seed   []byte // 24-byte DRBG seed
	IAT    int
	Biased bool
}

func vfSetBias(b bool) {
	_ = flag.Set(biasCmdArg, strconv.FormatBool(b))
}

// vfServerFactory builds the real server factory through the public API.
func vfServerFactory(br vfBridge) (base.ServerFactory, error) {
	vfSetBias(br.Biased)
	args := &pt.Args{}
	args.Add(nodeIDArg, hex.EncodeToString(br.ID.NodeID))
	args.Add(privateKeyArg, hex.EncodeToString(br.ID.Priv))
	args.Add(seedArg, hex.EncodeToString(br.Seed))
	args.Add(iatArg, strconv.Itoa(br.IAT))
	return (&Transport{}).ServerFactory(vfStateDir, args)
}

// vfClientArgs parses a bridge line (cert or legacy form) through the public
// client factory.
// vfCloseTwice closes every connection from two goroutines at once, the way the
// relay's two copiers do at the end of every relayed connection.  Whatever a
// Close hands back to the process (pools, caches) is then part of the state the
// following cases of the same process run in.
func vfCloseTwice(conns ...net.Conn) {
	var wg sync.WaitGroup
	for _, c := range conns {
		if c == nil {
			continue
		}
		for k := 0; k < 2; k++ {
			wg.Add(1)
			go func(c net.Conn) {
				defer wg.Done()
				defer func() { _ = recover() }()
				_ = c.Close()
			}(c)
		}
	}
	wg.Wait()
}

// vfSharedClientFactory, when set, is used by vfClientArgs instead of a fresh
// factory per call.
var vfSharedClientFactory base.ClientFactory

func vfClientArgs(br vfBridge, legacy bool, iat int) (base.ClientFactory, any, error) {
	vfSetBias(br.Biased) // the flag is process-wide: client and bridge of one case agree on it
	cf := vfSharedClientFactory // one factory for several bridges, as obfs4proxy uses it (set by a case)
	if cf == nil {
		var err error
		cf, err = (&Transport{}).ClientFactory("")
		if err != nil {
			return nil, nil, err
		}
	}
	args := &pt.Args{}
	if legacy {
		args.Add(nodeIDArg, hex.EncodeToString(br.ID.NodeID))
		args.Add(publicKeyArg, hex.EncodeToString(br.ID.Pub))
	} else {
		raw := append(append([]byte(nil), br.ID.NodeID...), br.ID.Pub...)
		c := &obfs4ServerCert{raw: raw}
		args.Add(certArg, c.String())
	}
	args.Add(iatArg, strconv.Itoa(iat))
	a, err := cf.ParseArgs(args)
	return cf, a, err
}

// vfDialFn returns a DialFunc handing out the given conn.
func vfDialFn(c net.Conn) base.DialFunc {
	return func(string, string) (net.Conn, error) { return c, nil }
}

// vfPair is a real client and a real server on one wire.
type vfPair struct {
	N  *wire.Net
	Cl *drive.Endpoint
	Sv *drive.Endpoint
	SF base.ServerFactory
}

// vfStartPair starts the server (parked in its first read), then the client
// (handshake written, parked).  Nothing has been released yet.
func vfStartPair(br vfBridge, legacy bool, clientIAT int) (*vfPair, error) {
	sf, err := vfServerFactory(br)
	if err != nil {
		return nil, fmt.Errorf("ServerFactory: %w", err)
	}
	cf, cargs, err := vfClientArgs(br, legacy, clientIAT)
	if err != nil {
		return nil, fmt.Errorf("ParseArgs: %w", err)
	}
	n := wire.New()
	p := &vfPair{N: n, SF: sf}
	steerS, steerC := vfSteerServerPad, vfSteerClientPad
	vfSteerServerPad, vfSteerClientPad = -1, -1
	if steerS >= 0 {
		detrand.ForceIntn(steerS)
	}
	p.Sv = drive.Start(n, wire.B, func() (net.Conn, error) { return sf.WrapConn(n.Conn(wire.B)) })
	if err := n.WaitQuiescent(wire.B); err != nil {
		return p, err
	}
	detrand.ClearForced()
	if steerC >= 0 {
		detrand.ForceIntn(steerC)
	}
	p.Cl = drive.Start(n, wire.A, func() (net.Conn, error) { return cf.Dial("tcp", "192.0.2.1:1", vfDialFn(n.Conn(wire.A)), cargs) })
	if err := n.WaitQuiescent(wire.A, wire.B); err != nil {
		return p, err
	}
	detrand.ClearForced()
	return p, nil
}

// vfSteerServerPad / vfSteerClientPad: when >= 0, the next vfStartPair makes the
// server / client draw this offset into its padding-length range (0 = minimum
// padding, range size - 1 = maximum; values beyond wrap around in a correct
// implementation).  Reset by vfStartPair.
var vfSteerServerPad, vfSteerClientPad = -1, -1

// vfDrawSteer draws padding steering for both sides (mostly none).
func vfDrawSteer(rt *rapid.T) bool {
	opts := []int{-1, -1, -1, -1, -1, -1, 0, refobfs4.ServerMaxPad, refobfs4.ServerMaxPad + 1}
	vfSteerServerPad = rapid.SampledFrom(opts).Draw(rt, "steerServerPad")
	optc := []int{-1, -1, -1, -1, -1, -1, 0, refobfs4.ClientMaxPad - refobfs4.ClientMinPad, refobfs4.ClientMaxPad - refobfs4.ClientMinPad + 1}
	vfSteerClientPad = rapid.SampledFrom(optc).Draw(rt, "steerClientPad")
	return vfSteerServerPad >= 0 || vfSteerClientPad >= 0
}

// vfFinishHandshake releases both handshakes whole and waits for quiescence.
func (p *vfPair) vfFinishHandshake() error {
	p.N.ReleaseAll(wire.A)
	if err := p.N.WaitQuiescent(wire.A, wire.B); err != nil {
		return err
	}
	p.N.ReleaseAll(wire.B)
	return p.N.WaitQuiescent(wire.A, wire.B)
}

// vfCounterStream is the per-direction payload: byte i of the stream is a
// function of (dir, i), so loss, duplication, reordering or injection changes
// the bytes seen.
func vfCounterStream(dir byte, off, n int) []byte {
	out := make([]byte, n)
	for i := range out {
		j := uint32(off + i)
		out[i] = byte(j*2654435761>>24) ^ byte(j) ^ dir
	}
	return out
}

// vfEndpointFailure turns a panic / wedge of an endpoint into a message.
func vfEndpointFailure(name string, ep *drive.Endpoint) string {
	if ep == nil {
		return ""
	}
	if pv, st := ep.Panic(); pv != nil {
		return fmt.Sprintf("VIOL[obfs4-panic]: %s endpoint panicked: %v\n%s", name, pv, st)
	}
	return ""
}

// vfRandSeedKey makes the randomness consumed by the code under test a
// function of k for the duration of a case.
func vfRandSeedKey(k uint64) func() {
	detrand.Seed(k)
	return detrand.Real
}

func vfHourNow() int64 { return time.Now().Unix() / 3600 }

// vfEnt returns a deterministic entropy function for reference-side keys.
func vfEnt(k uint64) func(n int) []byte {
	// Domain-separated from the keys used for identities and seeds (rapid likes
	// small numbers: without the mixing, "identity 3" and "third draw of entropy
	// 0" would be the same bytes and an impostor would hold the real key).
	base := (k+0x9e3779b97f4a7c15)*0xbf58476d1ce4e5b9 ^ 0xe17a0000e17a0000
	ctr := uint64(0)
	return func(n int) []byte {
		ctr++
		return detrand.Bytes(base+ctr*0x100000001b3, n)
	}
}

// vfRefSess is an established session between one real endpoint and the
// reference implementation operated by the harness.
type vfRefSess struct {
	N        *wire.Net
	Ep       *drive.Endpoint
	RealSide wire.Side
	RefSide  wire.Side
	Enc      *refobfs4.Encoder // reference -> real endpoint
	Dec      *refobfs4.Decoder // real endpoint -> reference

	HeldSeedFrame []byte
}

// vfRefSession performs a complete handshake between the real client (or
// server) and the reference peer, everything released whole.
func vfRefSession(br vfBridge, ent func(int) []byte, realIsClient, legacy bool) (*vfRefSess, error) {
	return vfRefSessionOpt(br, ent, realIsClient, legacy, false)
}

// vfRefSessionOpt: with withholdSeed the reference server sends only the
// response; the seed frame is left in HeldSeedFrame for the caller to inject.
func vfRefSessionOpt(br vfBridge, ent func(int) []byte, realIsClient, legacy, withholdSeed bool) (*vfRefSess, error) {
	n := wire.New()
	s := &vfRefSess{N: n}
	if realIsClient {
		s.RealSide, s.RefSide = wire.A, wire.B
		cf, cargs, err := vfClientArgs(br, legacy, br.IAT)
		if err != nil {
			return s, err
		}
		s.Ep = drive.Start(n, wire.A, func() (net.Conn, error) { return cf.Dial("tcp", "192.0.2.1:1", vfDialFn(n.Conn(wire.A)), cargs) })
		if err := n.WaitQuiescent(wire.A); err != nil {
			return s, err
		}
		sv := &refobfs4.Server{ID: br.ID, Key: refobfs4.NewEKey(ent), Pad: ent(int(ent(1)[0]))}
		if err := sv.ParseClient(n.Take(wire.A), vfHourNow()); err != nil {
			return s, fmt.Errorf("reference server: %w", err)
		}
		c2s, s2c := refobfs4.Keys(sv.KeySeed)
		s.Enc, s.Dec = refobfs4.NewEncoder(s2c), refobfs4.NewDecoder(c2s)
		seedFrame := s.Enc.Frame(refobfs4.PktSeed, br.Seed, 0)
		if withholdSeed {
			s.HeldSeedFrame = seedFrame
			n.Inject(wire.B, sv.Response())
		} else {
			n.Inject(wire.B, append(sv.Response(), seedFrame...))
		}
		n.ReleaseAll(wire.B)
		if err := n.WaitQuiescent(wire.A); err != nil {
			return s, err
		}
	} else {
		s.RealSide, s.RefSide = wire.B, wire.A
		sf, err := vfServerFactory(br)
		if err != nil {
			return s, err
		}
		s.Ep = drive.Start(n, wire.B, func() (net.Conn, error) { return sf.WrapConn(n.Conn(wire.B)) })
		cl := &refobfs4.Client{ID: refobfs4.Identity{Pub: br.ID.Pub, NodeID: br.ID.NodeID}, Key: refobfs4.NewEKey(ent),
			Pad: ent(refobfs4.ClientMinPad + int(ent(1)[0])), Hour: vfHourNow()}
		n.Inject(wire.A, cl.Handshake())
		n.ReleaseAll(wire.A)
		if err := n.WaitQuiescent(wire.B); err != nil {
			return s, err
		}
		resp := n.Take(wire.B)
		sh, err := cl.ParseResponse(resp)
		if err != nil {
			return s, fmt.Errorf("reference client: %w", err)
		}
		c2s, s2c := refobfs4.Keys(sh.KeySeed)
		s.Enc, s.Dec = refobfs4.NewEncoder(c2s), refobfs4.NewDecoder(s2c)
		s.Dec.Feed(resp[sh.Len:])
		if _, err := s.Dec.All(); err != nil {
			return s, fmt.Errorf("reference client: seed frame: %w", err)
		}
	}
	if !s.Ep.SetupDone() || s.Ep.SetupErr() != nil {
		return s, fmt.Errorf("real endpoint did not complete the handshake: done=%v err=%v", s.Ep.SetupDone(), s.Ep.SetupErr())
	}
	return s, nil
}
