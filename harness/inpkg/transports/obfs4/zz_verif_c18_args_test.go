//go:build verif

package obfs4

// C18 (e): the bridge-line round trip as a HISTORY over several bridges in one
// process.  Every object handed out by ParseArgs (cert form and legacy form)
// and by ServerFactory (the factory, its Args()) is kept alive; after every
// further call - other certs, other state directories, both forms mixed - ALL
// earlier results are re-verified: what a client obtained for bridge A must
// still be bridge A's node ID and public key after it has parsed bridge B's
// line.  (A tor client holds the parsed arguments of one SOCKS request while
// it parses the next one.)

import (
	"encoding/hex"
	"fmt"
	"os"
	"path/filepath"
	"strings"
	"testing"
	"time"

	"pgregory.net/rapid"

	"gitlab.torproject.org/tpo/anti-censorship/pluggable-transports/goptlib"

	"gitlab.com/yawning/obfs4.git/internal/verifkit/detrand"
	"gitlab.com/yawning/obfs4.git/internal/verifkit/drive"
	"gitlab.com/yawning/obfs4.git/internal/verifkit/ev"
)

// vf18ParseKeep parses args with a fresh client factory, checks the result
// against id and keeps it in the registry.
func vf18ParseKeep(reg *vf18Registry, form string, a *pt.Args, id vf18Ident) string {
	cf, err := (&Transport{}).ClientFactory("")
	if err != nil {
		return fmt.Sprintf("VIOL[c18-client]: ClientFactory: %v", err)
	}
	var parsed any
	res := drive.Call(60*time.Second, func() error {
		var e error
		parsed, e = cf.ParseArgs(a)
		return e
	})
	if res.Failed() {
		return fmt.Sprintf("VIOL[c18-panic]: ParseArgs(%s form %v): %s", form, *a, res)
	}
	if res.Err != nil {
		return fmt.Sprintf("VIOL[c18-parse-%s]: ParseArgs rejects the %s form %v of identity %v: %v", form, form, *a, id, res.Err)
	}
	ca, ok := parsed.(*obfs4ClientArgs)
	pub := id.pub()
	if !ok || ca == nil || ca.nodeID == nil || ca.publicKey == nil {
		return fmt.Sprintf("VIOL[c18-parse-%s]: ParseArgs(%s form) returned %T", form, form, parsed)
	}
	if *ca.nodeID.Bytes() != id.NodeID || string(ca.publicKey.Bytes()[:]) != string(pub) || ca.iatMode != id.IAT {
		return fmt.Sprintf("VIOL[c18-parse-%s]: client parsing the %s form %v obtains node-id %x public-key %x iat-mode %d, the bridge has node-id %x public-key %x iat-mode %d",
			form, form, *a, ca.nodeID.Bytes()[:], ca.publicKey.Bytes()[:], ca.iatMode, id.NodeID, pub, id.IAT)
	}
	c, _ := a.Get(certArg)
	if form != "cert" {
		c = id.cert()
	}
	reg.keepClient(form, c, ca, id, pub)
	return ""
}

func TestVerifC18ArgsHistory(t *testing.T) {
	e := ev.For("C18")
	e.Rule("args-history: 2-4 bridges (state directories) in one process, 4-16 operations: start of a bridge (plain / iat-mode override / explicit credentials; every start also parses its Args() in cert form and the legacy form), a client parsing the bridge line file of a bridge (cert form), a client parsing the legacy node-id/public-key form of a bridge, a client parsing the cert of a bridge that is not hosted here; every object returned by ParseArgs and ServerFactory is kept and all of them are re-verified (node ID, public key, iat-mode by in-package access; factory identity and Args() strings) after every further operation; non-trivial = a cert-form result re-verified after at least one later cert-form parse of a different cert; fingerprint = operation list")
	e.Floor("args-history-earlier-parse-result-reverified-after-a-different-cert/args-history", 0.7)
	rapid.Check(t, func(rt *rapid.T) {
		detrand.Seed(uint64(rapid.IntRange(0, 1<<20).Draw(rt, "rng")))
		defer detrand.Real()
		base := vf18TempDir("vf18-args-*")
		defer os.RemoveAll(base)
		reg := &vf18Registry{}
		vf18Keep = reg
		defer func() { vf18Keep = nil }()

		nb := rapid.IntRange(2, 4).Draw(rt, "bridges")
		dirs := make([]string, nb)
		model := make([]*vf18Ident, nb)
		for i := range dirs {
			dirs[i] = filepath.Join(base, fmt.Sprintf("bridge%d", i))
			if err := os.Mkdir(dirs[i], 0o700); err != nil {
				vf18Inconclusive("mkdir: %v", err)
			}
		}
		var hist []string
		fail := func(format string, a ...any) {
			rt.Fatalf("%s\nhistory: %s", fmt.Sprintf(format, a...), strings.Join(hist, " ; "))
		}
		startBridge := func(i int, a vf18Args, expl *vf18Ident) {
			hist = append(hist, fmt.Sprintf("bridge%d.%s", i, a))
			sf, err, pan := vf18Start(dirs[i], a)
			if pan != "" {
				fail("VIOL[c18-panic]: %s", pan)
			}
			if err != nil {
				fail("VIOL[c18-restart-failed]: valid start fails: %v", err)
			}
			got, msg := vf18CheckStart(dirs[i], sf) // parses both forms, keeps the results and the factory
			if msg != "" {
				fail("%s", msg)
			}
			if expl != nil && !got.sameKeys(*expl) {
				fail("VIOL[c18-explicit]: start with explicit credentials %v presents %v", *expl, got)
			}
			if expl == nil && model[i] != nil && !got.sameKeys(*model[i]) {
				fail("VIOL[c18-identity-changed]: bridge%d presents %v, persisted identity is %v", i, got, *model[i])
			}
			model[i] = &got
		}
		// every bridge exists before the mixing starts
		for i := range dirs {
			startBridge(i, vf18Args{}, nil)
			if msg := reg.verify(hist[len(hist)-1]); msg != "" {
				fail("%s", msg)
			}
		}
		n := rapid.IntRange(4, 16).Draw(rt, "n")
		for k := 0; k < n; k++ {
			i := rapid.IntRange(0, nb-1).Draw(rt, "bridge")
			switch op := rapid.IntRange(0, 9).Draw(rt, "op"); {
			case op < 2:
				startBridge(i, vf18Args{}, nil)
			case op < 3:
				m := rapid.IntRange(0, 2).Draw(rt, "iat")
				startBridge(i, vf18Args{iatArg: fmt.Sprint(m)}, nil)
			case op < 4:
				a, id := vf18DrawExplicitArgs(rt, "x")
				startBridge(i, a, &id)
			case op < 7:
				// a client parses the bridge line the operator would publish
				bl, err := os.ReadFile(filepath.Join(dirs[i], bridgeFile))
				if err != nil {
					fail("VIOL[c18-bridgeline]: %v", err)
				}
				a := pt.Args{}
				for _, line := range strings.Split(string(bl), "\n") {
					if strings.HasPrefix(line, "Bridge ") {
						for _, f := range strings.Fields(line) {
							if kv := strings.SplitN(f, "=", 2); len(kv) == 2 {
								a.Add(kv[0], kv[1])
							}
						}
					}
				}
				hist = append(hist, fmt.Sprintf("client parses bridge%d's bridge line %v", i, a))
				if msg := vf18ParseKeep(reg, "cert", &a, *model[i]); msg != "" {
					fail("%s", msg)
				}
			case op < 8:
				a := pt.Args{}
				a.Add(nodeIDArg, hex.EncodeToString(model[i].NodeID[:]))
				a.Add(publicKeyArg, hex.EncodeToString(model[i].pub()))
				a.Add(iatArg, fmt.Sprint(model[i].IAT))
				hist = append(hist, fmt.Sprintf("client parses bridge%d's legacy line", i))
				if msg := vf18ParseKeep(reg, "legacy", &a, *model[i]); msg != "" {
					fail("%s", msg)
				}
			default:
				// the cert of a bridge hosted elsewhere
				id := vf18DrawIdent(rt, "foreign")
				id.IAT = rapid.IntRange(0, 2).Draw(rt, "foreign-iat")
				a := pt.Args{}
				a.Add(certArg, id.cert())
				a.Add(iatArg, fmt.Sprint(id.IAT))
				hist = append(hist, fmt.Sprintf("client parses a foreign cert %s..", id.cert()[:10]))
				if msg := vf18ParseKeep(reg, "cert", &a, id); msg != "" {
					fail("%s", msg)
				}
			}
			if msg := reg.verify(hist[len(hist)-1]); msg != "" {
				fail("%s", msg)
			}
		}
		vf18Keep = nil
		detrand.Real()
		cls := []string{"args-history"}
		nt := reg.reverified > 0
		if nt {
			cls = append(cls, "args-history-earlier-parse-result-reverified-after-a-different-cert")
		}
		e.Class("args-history-kept-client-results", int64(len(reg.clients)))
		e.Class("args-history-kept-factories", int64(len(reg.servers)))
		e.Class("args-history-reverifications-after-a-different-cert", int64(reg.reverified))
		h := append([]string(nil), hist...)
		e.Case(ev.Hash("args-history", strings.Join(hist, ";")), nt, cls, func() any {
			if len(h) > 16 {
				h = h[:16]
			}
			return map[string]any{"part": "args-history", "bridges": nb, "operations": h}
		})
	})
}
