//go:build verif

package obfs4

// C18 — shared pieces: the identity model, guarded starts through the public
// ServerFactory, and the oracles evaluated on every successful start.

import (
	"encoding/base64"
	"encoding/hex"
	"fmt"
	"os"
	"path/filepath"
	"sort"
	"strconv"
	"strings"
	"time"

	"golang.org/x/crypto/curve25519"

	"gitlab.torproject.org/tpo/anti-censorship/pluggable-transports/goptlib"

	"gitlab.com/yawning/obfs4.git/internal/verifkit/drive"
)

// vf18Ident is a bridge identity as the property defines it.
type vf18Ident struct {
	NodeID [20]byte
	Priv   [32]byte
	Seed   [24]byte
	IAT    int
}

func (i vf18Ident) String() string {
	return fmt.Sprintf("{node-id %x private-key %x.. drbg-seed %x.. iat-mode %d}", i.NodeID, i.Priv[:6], i.Seed[:6], i.IAT)
}

func (i vf18Ident) sameKeys(o vf18Ident) bool {
	return i.NodeID == o.NodeID && i.Priv == o.Priv && i.Seed == o.Seed
}

func (i vf18Ident) pub() []byte {
	p, err := curve25519.X25519(i.Priv[:], curve25519.Basepoint)
	if err != nil {
		panic(err)
	}
	return p
}

func (i vf18Ident) cert() string {
	raw := append(append([]byte(nil), i.NodeID[:]...), i.pub()...)
	return base64.RawStdEncoding.EncodeToString(raw)
}

// vf18Args is the argument list of one start.
type vf18Args map[string]string

func (a vf18Args) String() string {
	var ks []string
	for k := range a {
		ks = append(ks, k)
	}
	sort.Strings(ks)
	var parts []string
	for _, k := range ks {
		v := a[k]
		if k == privateKeyArg && len(v) > 12 {
			v = v[:12] + ".."
		}
		parts = append(parts, fmt.Sprintf("%s=%q", k, v))
	}
	return "start(" + strings.Join(parts, " ") + ")"
}

func (a vf18Args) pt() *pt.Args {
	args := pt.Args{}
	for k, v := range a {
		args.Add(k, v)
	}
	return &args
}

// vf18Start runs one start through the public factory, guarded.
func vf18Start(dir string, a vf18Args) (sf *obfs4ServerFactory, err error, panicked string) {
	res := drive.Call(60*time.Second, func() error {
		f, e := (&Transport{}).ServerFactory(dir, a.pt())
		if e != nil {
			return e
		}
		s, ok := f.(*obfs4ServerFactory)
		if !ok {
			return fmt.Errorf("vf18: ServerFactory returned %T", f)
		}
		sf = s
		return nil
	})
	if res.Failed() {
		return nil, nil, res.String()
	}
	return sf, res.Err, ""
}

// vf18Presented reads the identity a running factory uses.
func vf18Presented(sf *obfs4ServerFactory) vf18Ident {
	var id vf18Ident
	copy(id.NodeID[:], sf.nodeID.Bytes()[:])
	copy(id.Priv[:], sf.identityKey.Private().Bytes()[:])
	copy(id.Seed[:], sf.lenSeed.Bytes()[:])
	id.IAT = sf.iatMode
	return id
}

// vf18CheckStart evaluates the per-start oracles of property C18 on a
// successful start: advertised arguments, both client-side parsers, bridge
// line file.  Returns the presented identity and "" or a violation.
func vf18CheckStart(dir string, sf *obfs4ServerFactory) (vf18Ident, string) {
	got := vf18Presented(sf)
	if got.IAT < 0 || got.IAT > 2 {
		return got, fmt.Sprintf("VIOL[c18-iat-range]: started with iat-mode %d", got.IAT)
	}
	pub := got.pub()
	if string(sf.identityKey.Public().Bytes()[:]) != string(pub) {
		return got, fmt.Sprintf("VIOL[c18-pubkey]: the factory's public key %x is not the X25519 base multiple %x of its private key", sf.identityKey.Public().Bytes()[:], pub)
	}
	args := sf.Args()
	cert, ok1 := args.Get(certArg)
	iatStr, ok2 := args.Get(iatArg)
	if !ok1 || !ok2 {
		return got, fmt.Sprintf("VIOL[c18-args]: Args() = %v lacks cert or iat-mode", *args)
	}
	if want := got.cert(); cert != want {
		return got, fmt.Sprintf("VIOL[c18-cert]: advertised cert %q, want unpadded base64(node-id | X25519-base(private-key)) = %q", cert, want)
	}
	if iatStr != strconv.Itoa(got.IAT) {
		return got, fmt.Sprintf("VIOL[c18-args]: advertised iat-mode %q, the factory runs iat-mode %d", iatStr, got.IAT)
	}
	// client side, cert form: exactly the advertised arguments
	cf, err := (&Transport{}).ClientFactory("")
	if err != nil {
		return got, fmt.Sprintf("VIOL[c18-client]: ClientFactory: %v", err)
	}
	parse := func(form string, a *pt.Args) string {
		var parsed any
		res := drive.Call(60*time.Second, func() error {
			var e error
			parsed, e = cf.ParseArgs(a)
			return e
		})
		if res.Failed() {
			return fmt.Sprintf("VIOL[c18-panic]: ParseArgs(%s form %v): %s", form, *a, res)
		}
		if res.Err != nil {
			return fmt.Sprintf("VIOL[c18-parse-%s]: ParseArgs rejects the %s form %v of identity %v: %v", form, form, *a, got, res.Err)
		}
		ca, ok := parsed.(*obfs4ClientArgs)
		if !ok || ca == nil || ca.nodeID == nil || ca.publicKey == nil {
			return fmt.Sprintf("VIOL[c18-parse-%s]: ParseArgs(%s form) returned %T", form, form, parsed)
		}
		if *ca.nodeID.Bytes() != got.NodeID || string(ca.publicKey.Bytes()[:]) != string(pub) {
			return fmt.Sprintf("VIOL[c18-parse-%s]: client parsing the %s form %v obtains node-id %x public-key %x, the bridge has node-id %x public-key %x",
				form, form, *a, ca.nodeID.Bytes()[:], ca.publicKey.Bytes()[:], got.NodeID, pub)
		}
		if ca.iatMode != got.IAT {
			return fmt.Sprintf("VIOL[c18-parse-%s]: client parsing the %s form obtains iat-mode %d, the bridge runs %d", form, form, ca.iatMode, got.IAT)
		}
		if vf18Keep != nil {
			vf18Keep.keepClient(form, cert, ca, got, pub)
		}
		return ""
	}
	if vf18Keep != nil {
		vf18Keep.keepServer(dir, sf, got, cert, iatStr)
	}
	if msg := parse("cert", args); msg != "" {
		return got, msg
	}
	legacy := pt.Args{}
	legacy.Add(nodeIDArg, hex.EncodeToString(got.NodeID[:]))
	legacy.Add(publicKeyArg, hex.EncodeToString(pub))
	legacy.Add(iatArg, iatStr)
	if msg := parse("legacy", &legacy); msg != "" {
		return got, msg
	}
	// bridge line file
	bl, err := os.ReadFile(filepath.Join(dir, bridgeFile))
	if err != nil {
		return got, fmt.Sprintf("VIOL[c18-bridgeline]: %s not readable after a successful start: %v", bridgeFile, err)
	}
	found := false
	for _, line := range strings.Split(string(bl), "\n") {
		if !strings.HasPrefix(line, "Bridge ") {
			continue
		}
		found = true
		var c, m string
		for _, f := range strings.Fields(line) {
			if strings.HasPrefix(f, certArg+"=") {
				c = f[len(certArg)+1:]
			}
			if strings.HasPrefix(f, iatArg+"=") {
				m = f[len(iatArg)+1:]
			}
		}
		if c != cert || m != iatStr {
			return got, fmt.Sprintf("VIOL[c18-bridgeline]: %s says cert=%q iat-mode=%q, Args() says cert=%q iat-mode=%q", bridgeFile, c, m, cert, iatStr)
		}
	}
	if !found {
		return got, fmt.Sprintf("VIOL[c18-bridgeline]: %s has no Bridge line", bridgeFile)
	}
	return got, ""
}

// vf18CopyDir copies a flat state directory.
func vf18CopyDir(src, dst string) error {
	ents, err := os.ReadDir(src)
	if err != nil {
		return err
	}
	for _, e := range ents {
		if e.IsDir() {
			continue
		}
		b, err := os.ReadFile(filepath.Join(src, e.Name()))
		if err != nil {
			return err
		}
		if err := os.WriteFile(filepath.Join(dst, e.Name()), b, 0o600); err != nil {
			return err
		}
	}
	return nil
}

// vf18Inconclusive ends the process in the way the driver maps to exit 2.
func vf18Inconclusive(format string, a ...any) {
	fmt.Printf("panic: test timed out (verif C18: inconclusive) - "+format+"\n", a...)
	os.Exit(2)
}

// vf18TempRoot prefers a memory file system: the fixed tree fsyncs on every
// start, which costs milliseconds per crash state on a disk.  Nothing depends
// on the file system type (the crash states are replayed from the recorded
// system calls, not taken from the disk).
func vf18TempRoot() string {
	if fi, err := os.Stat("/dev/shm"); err == nil && fi.IsDir() {
		if d, err := os.MkdirTemp("/dev/shm", "vf18-probe-*"); err == nil {
			os.Remove(d)
			return "/dev/shm"
		}
	}
	return ""
}

func vf18TempDir(pattern string) string {
	d, err := os.MkdirTemp(vf18TempRoot(), pattern)
	if err != nil {
		vf18Inconclusive("cannot create temp dir: %v", err)
	}
	if r, err := filepath.EvalSymlinks(d); err == nil {
		d = r
	}
	return d
}

// ---- results must not change after they were returned ------------------------------

// vf18Keep, when set, collects every object handed out by ParseArgs and
// ServerFactory during a case; verify() re-checks all of them.
var vf18Keep *vf18Registry

type vf18KeptClient struct {
	desc   string
	form   string
	cert   string
	ca     *obfs4ClientArgs
	nodeID [20]byte
	pub    [32]byte
	iat    int
	later  int // cert-form parses of a DIFFERENT cert made after this result was returned
}

type vf18KeptServer struct {
	desc    string
	sf      *obfs4ServerFactory
	args    *pt.Args
	id      vf18Ident
	cert    string
	iatStr  string
	pubWant [32]byte
}

type vf18Registry struct {
	calls      int
	clients    []*vf18KeptClient
	servers    []*vf18KeptServer
	reverified int // re-verifications of a cert-form result after >= 1 later parse of a different cert
}

func (r *vf18Registry) keepClient(form, cert string, ca *obfs4ClientArgs, id vf18Ident, pub []byte) {
	r.calls++
	if form == "cert" {
		for _, k := range r.clients {
			if k.cert != cert {
				k.later++
			}
		}
	}
	k := &vf18KeptClient{desc: fmt.Sprintf("result #%d of ParseArgs(%s form, cert %s.., identity %v)", r.calls, form, cert[:10], id), form: form, cert: cert, ca: ca, nodeID: id.NodeID, iat: id.IAT}
	copy(k.pub[:], pub)
	r.clients = append(r.clients, k)
}

func (r *vf18Registry) keepServer(dir string, sf *obfs4ServerFactory, id vf18Ident, cert, iatStr string) {
	r.calls++
	k := &vf18KeptServer{desc: fmt.Sprintf("result #%d of ServerFactory(%s) presenting %v", r.calls, filepath.Base(dir), id), sf: sf, args: sf.Args(), id: id, cert: cert, iatStr: iatStr}
	copy(k.pubWant[:], id.pub())
	r.servers = append(r.servers, k)
}

// verify re-checks every object handed out so far: none may have changed.
func (r *vf18Registry) verify(after string) string {
	for _, k := range r.clients {
		if k.ca.nodeID == nil || k.ca.publicKey == nil || *k.ca.nodeID.Bytes() != k.nodeID || *k.ca.publicKey.Bytes() != k.pub || k.ca.iatMode != k.iat {
			var n, p []byte
			if k.ca.nodeID != nil {
				n = k.ca.nodeID.Bytes()[:]
			}
			if k.ca.publicKey != nil {
				p = k.ca.publicKey.Bytes()[:]
			}
			return fmt.Sprintf("VIOL[c18-args-changed-after-return]: %s held node-id %x public-key %x iat-mode %d when it was returned; after %s the same object holds node-id %x public-key %x iat-mode %d (%d cert-form parses of other certs in between)",
				k.desc, k.nodeID, k.pub, k.iat, after, n, p, k.ca.iatMode, k.later)
		}
		if k.form == "cert" && k.later > 0 {
			r.reverified++
		}
	}
	for _, k := range r.servers {
		c, _ := k.args.Get(certArg)
		m, _ := k.args.Get(iatArg)
		c2, _ := k.sf.Args().Get(certArg)
		if c != k.cert || c2 != k.cert || m != k.iatStr {
			return fmt.Sprintf("VIOL[c18-args-changed-after-return]: %s advertised cert=%s iat-mode=%s; after %s its Args() say cert=%s / %s iat-mode=%s", k.desc, k.cert, k.iatStr, after, c, c2, m)
		}
		if got := vf18Presented(k.sf); got != k.id || *k.sf.identityKey.Public().Bytes() != k.pubWant {
			return fmt.Sprintf("VIOL[c18-args-changed-after-return]: %s; after %s the same factory holds %v public-key %x", k.desc, after, got, k.sf.identityKey.Public().Bytes()[:])
		}
	}
	return ""
}
