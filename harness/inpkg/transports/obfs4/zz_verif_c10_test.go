//go:build verif

package obfs4

// C10 (obfs4 part) — no peer input or network fault can crash, wedge or bloat an
// endpoint; handshake deadlines are armed and cleared.

import (
	"bytes"
	"encoding/binary"
	"errors"
	"fmt"
	"io"
	"net"
	"runtime"
	"strconv"
	"testing"
	"time"

	"pgregory.net/rapid"

	"gitlab.com/yawning/obfs4.git/internal/verifkit/detrand"
	"gitlab.com/yawning/obfs4.git/internal/verifkit/drive"
	"gitlab.com/yawning/obfs4.git/internal/verifkit/ev"
	"gitlab.com/yawning/obfs4.git/internal/verifkit/refobfs4"
	"gitlab.com/yawning/obfs4.git/internal/verifkit/wire"
)

var vf10Err = errors.New("verif: injected network error")

// vf10Gauge reads the buffer gauges of a connection under test.
func vf10Gauge(c net.Conn) (rx, decoded int) {
	oc, ok := c.(*obfs4Conn)
	if !ok || oc == nil {
		return 0, 0
	}
	return oc.receiveBuffer.Len(), oc.receiveDecodedBuffer.Len()
}

const (
	vf10MaxHandshakeBuf = 2 * maxHandshakeLength
	vf10MaxRxBuf        = consumeReadSize + 2*vfSeg
	vf10MaxDecoded      = 64 * 1024
)

// vf10End ends an exchange the generated way.
type vf10End struct {
	Kind string // eof, readerr, deadline
}

func vf10Finish(n *wire.Net, real wire.Side, end string) string {
	switch end {
	case "eof":
		n.EOF(real.Peer())
	case "readerr":
		n.ReadErrAt(real.Peer(), n.Consumed(real.Peer()), vf10Err)
	case "deadline":
		if !n.Fire(real) {
			// no deadline armed (established connection): end by EOF instead
			n.EOF(real.Peer())
		}
	}
	if err := n.WaitQuiescent(real); err != nil {
		if err2 := n.WaitQuiescentFor(wire.WatchdogDefault*3, real); err2 != nil {
			return "VIOL[c10-obfs4-wedge]: endpoint neither returned nor parked after the input ended: " + err2.Error()
		}
	}
	return ""
}

// vf10Deadlines checks the deadline discipline of a handshake from the wire log.
func vf10Deadlines(n *wire.Net, real wire.Side, succeeded bool) string {
	_, dl, _ := n.Snapshot()
	var mine []wire.DeadlineRec
	for _, r := range dl {
		if r.Side == real {
			mine = append(mine, r)
		}
	}
	if len(mine) == 0 {
		return "VIOL[c10-obfs4-deadline-not-armed]: handshake ran without a deadline"
	}
	if mine[0].T.IsZero() || mine[0].ReadsBefore != 0 || mine[0].Kind == "w" {
		return fmt.Sprintf("VIOL[c10-obfs4-deadline-not-armed]: first deadline call is %s %v after %d reads; a non-zero read deadline must be armed before the first handshake read", mine[0].Kind, mine[0].T, mine[0].ReadsBefore)
	}
	if succeeded {
		last := mine[len(mine)-1]
		if !last.T.IsZero() || last.Kind == "w" {
			return fmt.Sprintf("VIOL[c10-obfs4-deadline-not-cleared]: handshake succeeded but the last deadline call is %s %v: a stale handshake timer would kill the established connection", last.Kind, last.T)
		}
		if !n.ReadDeadline(real).IsZero() {
			return "VIOL[c10-obfs4-deadline-not-cleared]: a read deadline is still armed after a successful handshake"
		}
		if wd := n.WriteDeadline(real); !wd.IsZero() {
			return fmt.Sprintf("VIOL[c10-obfs4-deadline-not-cleared]: a write deadline (%v) is still armed after a successful handshake: every Write fails once the handshake timeout has passed", wd)
		}
	}
	return ""
}

// ---- T1/T2: handshake stages ------------------------------------------------------------

// vf10HandshakeInput: what the hostile peer sends during the handshake.
type vf10HandshakeInput struct {
	RealIsClient bool
	Data         []byte
	Chunks       []int
	End          string
	Desc         string
	// Undecided: the bytes are a proper prefix of something that may still become a valid handshake (short
	// random input, truncated valid handshake): whatever has arrived, the endpoint is still handshaking
	Undecided bool
}

// vf10RunHandshake feeds in.Data to a real endpoint that is handshaking.
func vf10RunHandshake(br vfBridge, in vf10HandshakeInput) (msg string, reachedParser bool) {
	n := wire.New()
	defer n.Shutdown()
	var ep *drive.Endpoint
	real := wire.B
	if in.RealIsClient {
		real = wire.A
		cf, cargs, err := vfClientArgs(br, false, br.IAT)
		if err != nil {
			return "INFRA: " + err.Error(), false
		}
		ep = drive.Start(n, wire.A, func() (net.Conn, error) { return cf.Dial("tcp", "192.0.2.1:1", vfDialFn(n.Conn(wire.A)), cargs) })
	} else {
		sf, err := vfServerFactory(br)
		if err != nil {
			return "INFRA: " + err.Error(), false
		}
		ep = drive.Start(n, wire.B, func() (net.Conn, error) { return sf.WrapConn(n.Conn(wire.B)) })
	}
	if err := n.WaitQuiescent(real); err != nil {
		return "VIOL[c10-obfs4-wedge]: " + err.Error(), false
	}
	// "armed when they start": the deadline the handshake started under bounds the whole handshake; bytes
	// that trickle in do not push it back (a peer that sends a byte now and then would never be dropped)
	first := n.ReadDeadline(real)
	slides := func(after string) string {
		if !in.Undecided || first.IsZero() || ep.SetupDone() || n.Closed(real) {
			return ""
		}
		if d := n.ReadDeadline(real); d.After(first.Add(2 * time.Millisecond)) {
			return fmt.Sprintf("VIOL[c10-obfs4-deadline-slides]: the handshake started under the read deadline %s; after %s (still handshaking: %s) the read deadline is %s, %v later: every piece of input pushes the timeout back", first.Format("15:04:05.000000"), after, in.Desc, d.Format("15:04:05.000000"), d.Sub(first))
		}
		return ""
	}
	n.Inject(real.Peer(), in.Data)
	for _, c := range in.Chunks {
		if n.Pending(real.Peer()) == 0 || n.Closed(real) {
			break
		}
		n.Release(real.Peer(), c)
		if err := n.WaitQuiescent(real); err != nil {
			return "VIOL[c10-obfs4-wedge]: " + err.Error(), false
		}
		if m := slides(fmt.Sprintf("a segment of %d bytes", c)); m != "" {
			return m, false
		}
	}
	if !n.Closed(real) {
		if in.Undecided && n.Pending(real.Peer()) > 0 {
			time.Sleep(5 * time.Millisecond)
		}
		n.ReleaseAll(real.Peer())
		if err := n.WaitQuiescent(real); err != nil {
			return "VIOL[c10-obfs4-wedge]: " + err.Error(), false
		}
		if m := slides("the rest of the input, sent 5 ms later"); m != "" {
			return m, false
		}
	}
	if pv, st := ep.Panic(); pv != nil {
		return fmt.Sprintf("VIOL[c10-obfs4-panic]: %v\n%s", pv, st), false
	}
	reachedParser = len(in.Data) >= 64
	if !ep.SetupDone() {
		// still handshaking: the endpoint must be waiting for input, holding a bounded buffer
		if u := n.Unread(real.Peer()); u != 0 && !n.Closed(real) {
			return fmt.Sprintf("VIOL[c10-obfs4-not-consuming]: %d released bytes were not read while the handshake is waiting", u), reachedParser
		}
	}
	// a server that has rejected the peer drains until its close deadline; the
	// client returns at once.  Either way: end the exchange and demand a return.
	for i := 0; i < 3 && !ep.Exited(); i++ {
		if m := vf10Finish(n, real, in.End); m != "" {
			return m, reachedParser
		}
		if in.End != "deadline" {
			break
		}
	}
	if !ep.Exited() {
		// the server may still be in its discard loop after EOF... it is not: EOF ends io.Copy
		if m := vf10Finish(n, real, "eof"); m != "" {
			return m, reachedParser
		}
	}
	if pv, st := ep.Panic(); pv != nil {
		return fmt.Sprintf("VIOL[c10-obfs4-panic]: %v\n%s", pv, st), reachedParser
	}
	if !ep.SetupDone() {
		return fmt.Sprintf("VIOL[c10-obfs4-handshake-hangs]: handshake call has not returned after the input ended by %s (%s)", in.End, in.Desc), reachedParser
	}
	if ep.SetupErr() == nil {
		// the input happened to be (or was built as) a valid handshake
		if m := vf10Deadlines(n, real, true); m != "" {
			return m, reachedParser
		}
		if !ep.Exited() {
			return "VIOL[c10-obfs4-read-hangs]: Read has not returned after the stream ended", reachedParser
		}
		return "", reachedParser
	}
	if m := vf10Deadlines(n, real, false); m != "" {
		return m, reachedParser
	}
	if ep.GotLen() != 0 {
		return "VIOL[c10-obfs4-data-from-failed-handshake]: application data surfaced from a failed handshake", reachedParser
	}
	return "", reachedParser
}

func vf10GenHandshakeInput(rt *rapid.T, br vfBridge, ent func(int) []byte) vf10HandshakeInput {
	in := vf10HandshakeInput{RealIsClient: rapid.Bool().Draw(rt, "realIsClient")}
	in.End = rapid.SampledFrom([]string{"eof", "readerr", "deadline"}).Draw(rt, "end")
	pub := refobfs4.Identity{Pub: br.ID.Pub, NodeID: br.ID.NodeID}
	kind := rapid.SampledFrom([]string{"random", "random-big", "mark-then-garbage", "valid-prefix", "valid-plus-garbage", "huge", "low-order-key"}).Draw(rt, "inputKind")
	switch kind {
	case "random":
		in.Data = ent(rapid.IntRange(0, 300).Draw(rt, "len"))
	case "random-big":
		in.Data = ent(rapid.SampledFrom([]int{8191, 8192, 8193, 16384, 20000}).Draw(rt, "len"))
	case "huge":
		in.Data = bytes.Repeat(ent(4096), rapid.SampledFrom([]int{64, 256}).Draw(rt, "x4KiB"))
	case "mark-then-garbage":
		// a correct mark (public knowledge) at a generated place, wrong MAC behind it
		if in.RealIsClient {
			y := ent(32)
			body := append(append(append([]byte(nil), y...), ent(32)...), ent(rapid.IntRange(0, 300).Draw(rt, "pad"))...)
			full := refobfs4.ReMAC(pub, body, vfHourNow())
			full[len(full)-1] ^= 1
			in.Data = append(full, ent(rapid.IntRange(0, 100).Draw(rt, "tail"))...)
		} else {
			cl := &refobfs4.Client{ID: pub, Key: refobfs4.NewEKey(ent), Pad: ent(rapid.IntRange(77, 400).Draw(rt, "pad")), Hour: vfHourNow()}
			hs := append([]byte(nil), cl.Handshake()...)
			hs[len(hs)-1] ^= 1
			in.Data = hs
		}
	case "low-order-key":
		// valid in every respect that needs public knowledge only (length, mark, MAC
		// with the current hour), but the key representative maps to a low-order
		// point: every Diffie-Hellman result is all-zero (or the library refuses the
		// point) - the handshake must fail with an error, not crash
		reprs := vfLowOrderReprs()
		r := append([]byte(nil), reprs[rapid.IntRange(0, len(reprs)-1).Draw(rt, "lowRepr")]...)
		r[31] |= byte(rapid.IntRange(0, 3).Draw(rt, "lowTop")) << 6
		if in.RealIsClient {
			body := append(append(append([]byte(nil), r...), ent(32)...), ent(rapid.IntRange(0, 300).Draw(rt, "pad"))...)
			in.Data = append(refobfs4.ReMAC(pub, body, vfHourNow()), ent(rapid.IntRange(0, 100).Draw(rt, "tail"))...)
		} else {
			cl := &refobfs4.Client{ID: pub, Key: refobfs4.EKey{Repr: r, Pub: refobfs4.ReprToPublic(r)}, Pad: ent(rapid.IntRange(77, 400).Draw(rt, "pad")), Hour: vfHourNow()}
			in.Data = append([]byte(nil), cl.Handshake()...)
		}
	case "valid-prefix", "valid-plus-garbage":
		var hs []byte
		if in.RealIsClient {
			// a response that is valid in form for some other client key: passes mark+MAC, fails AUTH
			sv := &refobfs4.Server{ID: refobfs4.Identity{Priv: ent(32), Pub: br.ID.Pub, NodeID: br.ID.NodeID}, Key: refobfs4.NewEKey(ent), Pad: ent(rapid.IntRange(0, 300).Draw(rt, "pad"))}
			other := &refobfs4.Client{ID: pub, Key: refobfs4.NewEKey(ent), Pad: ent(80), Hour: vfHourNow()}
			_ = sv.ParseClient(other.Handshake(), vfHourNow())
			if sv.Auth == nil {
				sv.Auth = ent(32)
			}
			hs = sv.Response()
		} else {
			cl := &refobfs4.Client{ID: pub, Key: refobfs4.NewEKey(ent), Pad: ent(rapid.IntRange(77, 400).Draw(rt, "pad")), Hour: vfHourNow()}
			hs = append([]byte(nil), cl.Handshake()...)
		}
		if kind == "valid-prefix" {
			in.Data = hs[:rapid.IntRange(0, len(hs)-1).Draw(rt, "cut")]
		} else {
			in.Data = append(hs, ent(rapid.IntRange(1, 3000).Draw(rt, "garbage"))...)
		}
	}
	in.Desc = fmt.Sprintf("%s(%d bytes)", kind, len(in.Data))
	in.Undecided = kind == "random" || kind == "valid-prefix"
	for i, k := 0, rapid.IntRange(0, 5).Draw(rt, "chunks"); i < k; i++ {
		in.Chunks = append(in.Chunks, rapid.SampledFrom([]int{1, 31, 32, 63, 64, 65, 96, 141, 1000, 8191, 8192, 8193}).Draw(rt, "chunk"))
	}
	return in
}

func TestVerifC10Obfs4Handshake(t *testing.T) {
	vfSetup(t)
	c := ev.For("C10")
	c.Rule("obfs4-handshake: a real client (Dial) or server (WrapConn) is fed generated bytes in place of the peer's handshake (random, 8 KiB boundary lengths, up to 1 MiB, correct mark with wrong MAC, truncated valid handshake, valid-looking handshake plus garbage) in generated segments, ended by EOF, an injected read error or the fired deadline; oracle: no panic, released bytes are consumed, the handshake call returns an error once the input has ended, a deadline was armed before the first read (and is cleared after a success), while the input is still undecided (short random input, truncated valid handshake) the read deadline in force never moves later than the one the handshake started under (one piece of the input is sent 5 ms after the others), no data surfaces; non-trivial = input of at least 64 bytes (gets past the minimum-length test of the parser); fingerprint = role, input kind, length, plan, ending; plus handshakes that are valid in everything public knowledge allows (length, mark, MAC with the current hour) but whose key representative maps to a low-order point")
	rapid.Check(t, func(rt *rapid.T) {
		rk := rapid.Uint64().Draw(rt, "randKey")
		defer vfRandSeedKey(rk)()
		br, _ := vfGenBridge(rt, []int{0, 1})
		ent := vfEnt(rapid.Uint64().Draw(rt, "refEntropy"))
		in := vf10GenHandshakeInput(rt, br, ent)
		msg, nt := vf10RunHandshake(br, in)
		if msg != "" {
			rt.Fatalf("%s\ninput %s realIsClient=%v chunks=%v end=%s", msg, in.Desc, in.RealIsClient, in.Chunks, in.End)
		}
		role := map[bool]string{true: "obfs4-client-handshake", false: "obfs4-server-handshake"}[in.RealIsClient]
		c.Case(ev.Hash(role, in.Desc, fmt.Sprint(in.Chunks), in.End, rk), nt, []string{role, "end-" + in.End}, func() any {
			return map[string]any{"stage": role, "input": in.Desc, "chunks": in.Chunks, "end": in.End}
		})
	})
}

func vf10FuzzHandshake(f *testing.F, realIsClient bool) {
	vfSetup(f)
	br := vfBridge{ID: refobfs4.NewIdentity(vfEnt(41)(52)), Seed: vfEnt(42)(24)}
	ent := vfEnt(43)
	pub := refobfs4.Identity{Pub: br.ID.Pub, NodeID: br.ID.NodeID}
	cl := &refobfs4.Client{ID: pub, Key: refobfs4.NewEKey(ent), Pad: ent(77), Hour: vfHourNow()}
	hs := append([]byte(nil), cl.Handshake()...)
	f.Add([]byte{0, 0}, []byte{})
	f.Add([]byte{1, 9}, hs)
	f.Add([]byte{2, 200}, hs[:100])
	f.Add([]byte{0, 1}, append(append([]byte(nil), hs...), 1, 2, 3))
	f.Add([]byte{1, 31}, bytes.Repeat([]byte{0xff}, 8192))
	f.Add([]byte{2, 64}, bytes.Repeat([]byte{0}, 8193))
	f.Add([]byte{0, 7}, refobfs4.ReMAC(pub, append(ent(64), ent(10)...), vfHourNow()))
	f.Fuzz(func(t *testing.T, ctl []byte, data []byte) {
		if len(ctl) < 2 || len(data) > 1<<17 {
			return
		}
		in := vf10HandshakeInput{RealIsClient: realIsClient, Data: data, End: []string{"eof", "readerr", "deadline"}[int(ctl[0])%3], Desc: "fuzz"}
		if ctl[1] > 0 {
			in.Chunks = []int{int(ctl[1]), int(ctl[1]) * 7, 8192}
		}
		if msg, _ := vf10RunHandshake(br, in); msg != "" && msg[:5] != "INFRA" {
			t.Fatalf("%s\nctl=%v data=%s", msg, ctl, strconv.Quote(string(data)))
		}
	})
}

func FuzzVerifC10Obfs4ServerHandshake(f *testing.F) { vf10FuzzHandshake(f, false) }
func FuzzVerifC10Obfs4ClientHandshake(f *testing.F) { vf10FuzzHandshake(f, true) }

// ---- T3: authenticated but malformed frames -------------------------------------------------

// vf10Frame is one thing the (authenticated) hostile peer sends after the handshake.
type vf10Frame struct {
	Kind     string // packet, short, raw
	Typ      byte
	Payload  int
	Pad      int
	Declared int // declared payload length
	Short    int // plaintext length for Kind short (0..2)
	Raw      int
}

func (f vf10Frame) String() string {
	switch f.Kind {
	case "short":
		return fmt.Sprintf("short(%d)", f.Short)
	case "raw":
		return fmt.Sprintf("raw(%d)", f.Raw)
	}
	return fmt.Sprintf("pkt(type=%d payload=%d pad=%d declared=%d)", f.Typ, f.Payload, f.Pad, f.Declared)
}

// vf10RunFrames sends frames to an established real endpoint and checks what surfaces.
func vf10RunFrames(br vfBridge, entKey uint64, realIsClient bool, frames []vf10Frame, chunks []int, readBuf int, end string) (string, bool) {
	ent := vfEnt(entKey)
	s, err := vfRefSession(br, ent, realIsClient, false)
	if s != nil && s.N != nil {
		defer s.N.Shutdown()
	}
	if err != nil {
		return "INFRA: reference session: " + err.Error(), false
	}
	if m := vf10Deadlines(s.N, s.RealSide, true); m != "" {
		return m, false
	}
	dir := byte(1)
	if !realIsClient {
		dir = 0
	}
	var stream, want []byte
	fatal := false
	pastFirstCheck := false
	off := 0
	for _, f := range frames {
		switch f.Kind {
		case "short":
			stream = append(stream, s.Enc.Seal(ent(f.Short))...)
			fatal = true
		case "raw":
			stream = append(stream, ent(f.Raw)...)
			fatal = true
		default:
			body := vfCounterStream(dir, off, f.Payload)
			pkt := make([]byte, 3+f.Payload+f.Pad)
			pkt[0] = f.Typ
			binary.BigEndian.PutUint16(pkt[1:], uint16(f.Declared))
			copy(pkt[3:], body)
			stream = append(stream, s.Enc.Seal(pkt)...)
			pastFirstCheck = true
			if f.Declared > f.Payload+f.Pad {
				fatal = true
			} else if f.Typ == refobfs4.PktPayload {
				// the declared prefix of payload|padding is what the packet carries
				carried := append(append([]byte(nil), body...), make([]byte, f.Pad)...)[:f.Declared]
				want = append(want, carried...)
				if f.Declared == f.Payload {
					off += f.Payload
				} else {
					// the stream the application sees is no longer the counter stream; compare literally
					off += f.Payload
				}
			}
		}
		if fatal {
			break
		}
	}
	if fatal {
		// enough genuine-looking bytes behind the damage for any length the decoder may choose
		stream = append(stream, ent(3*vfSeg)...)
	}
	s.Ep.SetBuf(readBuf)
	s.N.Inject(s.RefSide, stream)
	maxRx, maxDec := 0, 0
	gauge := func() string {
		rx, dc := vf10Gauge(s.Ep.Conn())
		if rx > maxRx {
			maxRx = rx
		}
		if dc > maxDec {
			maxDec = dc
		}
		if rx > vf10MaxRxBuf {
			return fmt.Sprintf("VIOL[c10-obfs4-buffer-growth]: receive buffer holds %d bytes (> %d)", rx, vf10MaxRxBuf)
		}
		if dc > vf10MaxDecoded {
			return fmt.Sprintf("VIOL[c10-obfs4-buffer-growth]: decoded buffer holds %d bytes with a draining reader (> %d)", dc, vf10MaxDecoded)
		}
		return ""
	}
	for _, c := range chunks {
		if s.N.Pending(s.RefSide) == 0 {
			break
		}
		s.N.Release(s.RefSide, c)
		if err := s.N.WaitQuiescent(s.RealSide); err != nil {
			return "VIOL[c10-obfs4-wedge]: " + err.Error(), pastFirstCheck
		}
		if m := gauge(); m != "" {
			return m, pastFirstCheck
		}
	}
	s.N.ReleaseAll(s.RefSide)
	if err := s.N.WaitQuiescent(s.RealSide); err != nil {
		return "VIOL[c10-obfs4-wedge]: " + err.Error(), pastFirstCheck
	}
	if m := gauge(); m != "" {
		return m, pastFirstCheck
	}
	if pv, st := s.Ep.Panic(); pv != nil {
		return fmt.Sprintf("VIOL[c10-obfs4-panic]: %v\n%s", pv, st), pastFirstCheck
	}
	got := s.Ep.Got()
	if len(got) > len(want) || !bytes.Equal(got, want[:len(got)]) {
		return fmt.Sprintf("VIOL[c10-obfs4-bogus-data]: endpoint delivered %d bytes that are not a prefix of the %d bytes carried by well-formed packets", len(got), len(want)), pastFirstCheck
	}
	if fatal {
		if rerr := s.Ep.ReadErr(); rerr == nil || errors.Is(rerr, io.EOF) {
			return fmt.Sprintf("VIOL[c10-obfs4-malformed-accepted]: a malformed packet / garbage was consumed without Read reporting an error (err=%v)", rerr), pastFirstCheck
		}
	} else if len(got) != len(want) {
		return fmt.Sprintf("VIOL[c10-obfs4-data-missing]: %d of %d bytes carried by well-formed packets were delivered", len(got), len(want)), pastFirstCheck
	}
	if m := vf10Finish(s.N, s.RealSide, end); m != "" {
		return m, pastFirstCheck
	}
	if !s.Ep.Exited() {
		return fmt.Sprintf("VIOL[c10-obfs4-read-hangs]: Read has not returned after the stream ended by %s", end), pastFirstCheck
	}
	if pv, st := s.Ep.Panic(); pv != nil {
		return fmt.Sprintf("VIOL[c10-obfs4-panic]: %v\n%s", pv, st), pastFirstCheck
	}
	return "", pastFirstCheck
}

func vf10GenFrames(rt *rapid.T) []vf10Frame {
	var out []vf10Frame
	for i, k := 0, rapid.IntRange(1, 8).Draw(rt, "frames"); i < k; i++ {
		switch rapid.IntRange(0, 9).Draw(rt, "frameKind") {
		case 0:
			out = append(out, vf10Frame{Kind: "short", Short: rapid.IntRange(0, 2).Draw(rt, "shortLen")})
		case 1:
			out = append(out, vf10Frame{Kind: "raw", Raw: rapid.IntRange(1, 3000).Draw(rt, "rawLen")})
		case 2: // declared length lies upwards
			p := rapid.IntRange(0, 200).Draw(rt, "payload")
			pad := rapid.IntRange(0, 50).Draw(rt, "pad")
			d := p + pad + rapid.SampledFrom([]int{1, 2, 1000, 65535 - 250}).Draw(rt, "lie")
			out = append(out, vf10Frame{Kind: "packet", Typ: byte(rapid.SampledFrom([]int{0, 0, 1, 9}).Draw(rt, "typ")), Payload: p, Pad: pad, Declared: d})
		case 3: // declared length smaller than the payload present
			p := rapid.IntRange(1, 1427).Draw(rt, "payload")
			out = append(out, vf10Frame{Kind: "packet", Typ: 0, Payload: p, Pad: 0, Declared: rapid.IntRange(0, p-1).Draw(rt, "declared")})
		case 4: // declared length reaches into the padding
			p := rapid.IntRange(0, 700).Draw(rt, "payload")
			pad := rapid.IntRange(1, 700).Draw(rt, "pad")
			out = append(out, vf10Frame{Kind: "packet", Typ: 0, Payload: p, Pad: pad, Declared: p + rapid.IntRange(1, pad).Draw(rt, "into")})
		case 5: // seed packets of every length, unknown types
			p := rapid.SampledFrom([]int{0, 23, 24, 25, 100}).Draw(rt, "seedLen")
			out = append(out, vf10Frame{Kind: "packet", Typ: byte(rapid.SampledFrom([]int{1, 1, 2, 255}).Draw(rt, "typ")), Payload: p, Pad: 0, Declared: p})
		case 6: // maximum frame
			out = append(out, vf10Frame{Kind: "packet", Typ: 0, Payload: 1427, Pad: 0, Declared: 1427})
		default:
			p := rapid.IntRange(0, 1427).Draw(rt, "payload")
			pad := rapid.IntRange(0, 1427-p).Draw(rt, "pad")
			out = append(out, vf10Frame{Kind: "packet", Typ: 0, Payload: p, Pad: pad, Declared: p})
		}
	}
	return out
}

func TestVerifC10Obfs4Frames(t *testing.T) {
	vfSetup(t)
	c := ev.For("C10")
	c.Rule("obfs4-frames: an established real client or server receives, from the reference peer holding the session keys, 1-8 frames that authenticate but may be malformed (plaintext shorter than a packet header, declared payload length beyond / below / into the padding, seed packets of wrong length, unknown types) or raw garbage, in generated segments and reader buffer sizes, ended by EOF / read error; oracle: no panic, delivered bytes are exactly what well-formed packets carried before the first fatal one, a fatal packet makes Read report an error, buffers stay under fixed bounds, Read returns once the stream has ended, no stale deadline; non-trivial = at least one authenticated packet reached the packet parser")
	rapid.Check(t, func(rt *rapid.T) {
		rk := rapid.Uint64().Draw(rt, "randKey")
		defer vfRandSeedKey(rk)()
		br, _ := vfGenBridge(rt, []int{0})
		realIsClient := rapid.Bool().Draw(rt, "realIsClient")
		frames := vf10GenFrames(rt)
		var chunks []int
		for i, k := 0, rapid.IntRange(0, 5).Draw(rt, "chunks"); i < k; i++ {
			chunks = append(chunks, rapid.SampledFrom([]int{1, 2, 20, 21, 22, 1448, 5000}).Draw(rt, "chunk"))
		}
		readBuf := rapid.SampledFrom([]int{1, 7, 1427, 65536}).Draw(rt, "readBuf")
		end := rapid.SampledFrom([]string{"eof", "readerr"}).Draw(rt, "end")
		msg, nt := vf10RunFrames(br, rapid.Uint64().Draw(rt, "refEntropy"), realIsClient, frames, chunks, readBuf, end)
		if msg != "" {
			rt.Fatalf("%s\nrealIsClient=%v frames=%v chunks=%v readBuf=%d end=%s", msg, realIsClient, frames, chunks, readBuf, end)
		}
		role := map[bool]string{true: "obfs4-client-frames", false: "obfs4-server-frames"}[realIsClient]
		c.Case(ev.Hash(role, fmt.Sprint(frames), fmt.Sprint(chunks), readBuf, end), nt, []string{role}, func() any {
			return map[string]any{"stage": role, "frames": fmt.Sprint(frames), "chunks": chunks, "read_buf": readBuf, "end": end}
		})
	})
}

// TestVerifC10Obfs4FramesWhileWriting: what the peer sends is processed by the
// reader goroutine while the application's writer goroutine is inside Write
// (the relay runs both at once).  Peer-driven state changes - above all PRNG
// seed packets, which replace the distributions Write samples - must not make
// the concurrent Write panic or wedge.  Free-running, also under -race.
func TestVerifC10Obfs4FramesWhileWriting(t *testing.T) {
	vfSetup(t)
	c := ev.For("C10")
	c.Rule("obfs4-frames-while-writing: an established real client or server (iat-mode 0/1/2); a writer goroutine performs 10-60 Writes of 0-3000 bytes back to back while the reference peer, holding the session keys, sends 20-200 authenticated frames in generated segments without waiting: payload, padding, unknown types, and PRNG-seed packets with generated seeds (incl. seeds of one-entry and very small tables) - a flood of them in half of the cases; oracle: no panic in either goroutine, every Write returns without error, Read reports no error (the frames are valid), both goroutines finish / park (wedge only after 60 s), delivered payload equals what the peer sent; non-trivial = >= 5 seed packets were processed by a client while Writes were in progress; fingerprint = role, mode, sizes, frames, randomness key")
	c.Floor("fww-seed-flood-at-client/fww", 0.15)
	rapid.Check(t, func(rt *rapid.T) {
		rk := rapid.Uint64().Draw(rt, "randKey")
		defer vfRandSeedKey(rk)()
		var br vfBridge
		br.ID = refobfs4.NewIdentity(detrand.Bytes(rapid.Uint64().Draw(rt, "identity"), 52))
		br.Biased = rapid.Bool().Draw(rt, "biased")
		br.IAT = rapid.SampledFrom([]int{0, 0, 0, 1, 2}).Draw(rt, "iat")
		br.Seed = detrand.Bytes(rapid.Uint64().Draw(rt, "seed"), 24)
		realIsClient := rapid.IntRange(0, 3).Draw(rt, "realIsClient") > 0
		s, err := vfRefSessionOpt(br, vfEnt(rapid.Uint64().Draw(rt, "refEntropy")), realIsClient, false, false)
		if s != nil && s.N != nil {
			defer s.N.Shutdown()
		}
		if err != nil {
			rt.Fatalf("INFRA: session: %v", err)
		}
		nw := rapid.IntRange(10, 60).Draw(rt, "writes")
		if br.IAT != 0 {
			nw = rapid.IntRange(4, 10).Draw(rt, "writesIAT")
		}
		sizes := make([]int, nw)
		for i := range sizes {
			sizes[i] = rapid.SampledFrom([]int{0, 1, 50, 700, 1427, 1428, 3000}).Draw(rt, "size")
			if br.IAT != 0 && sizes[i] > 1428 {
				sizes[i] = 700
			}
		}
		flood := rapid.Bool().Draw(rt, "seedFlood")
		nf := rapid.IntRange(20, 200).Draw(rt, "frames")
		var stream, want []byte
		seedPkts := 0
		dir := byte(1)
		if !realIsClient {
			dir = 0
		}
		for i := 0; i < nf; i++ {
			k := rapid.IntRange(0, 9).Draw(rt, "frameKind")
			if flood && k >= 3 {
				k = 9
			}
			switch {
			case k < 4:
				pl := vfCounterStream(dir, len(want), rapid.IntRange(0, 300).Draw(rt, "payload"))
				want = append(want, pl...)
				stream = append(stream, s.Enc.Frame(refobfs4.PktPayload, pl, rapid.IntRange(0, 40).Draw(rt, "pad"))...)
			case k < 6:
				stream = append(stream, s.Enc.Frame(refobfs4.PktPayload, nil, rapid.IntRange(0, 1427).Draw(rt, "padOnly"))...)
			case k < 7:
				stream = append(stream, s.Enc.Frame(byte(rapid.IntRange(2, 255).Draw(rt, "unknownType")), detrand.Bytes(uint64(i), rapid.IntRange(0, 64).Draw(rt, "unknownLen")), 0)...)
			default:
				var sd []byte
				switch rapid.IntRange(0, 3).Draw(rt, "seedKind") {
				case 0:
					sd = vfSpecialSeed("single", rapid.IntRange(0, 7).Draw(rt, "singleIdx"), br.Biased)
				case 1:
					sd = vfSpecialSeed("small", rapid.IntRange(0, 7).Draw(rt, "smallIdx"), br.Biased)
				default:
					sd = detrand.Bytes(rapid.Uint64().Draw(rt, "peerSeed"), 24)
				}
				stream = append(stream, s.Enc.Frame(refobfs4.PktSeed, sd, 0)...)
				seedPkts++
			}
		}
		var werr string
		wdone := make(chan struct{})
		go func() {
			defer close(wdone)
			off := 0
			for _, n := range sizes {
				res, wn, _ := s.Ep.Write(vfCounterStream(1-dir, off, n))
				if res.Failed() {
					werr = fmt.Sprintf("VIOL[c10-obfs4-panic]: Write(%d bytes) while the peer's frames were being processed: %s", n, res)
					return
				}
				if res.Err != nil || wn != n {
					werr = fmt.Sprintf("VIOL[c10-obfs4-write-error]: Write(%d) = %d, %v on a healthy connection", n, wn, res.Err)
					return
				}
				off += n
			}
		}()
		// the peer's frames, in generated segments, without waiting for anything
		for len(stream) > 0 {
			k := rapid.IntRange(1, 3000).Draw(rt, "segment")
			if k > len(stream) {
				k = len(stream)
			}
			s.N.Inject(s.RefSide, stream[:k])
			s.N.ReleaseAll(s.RefSide)
			stream = stream[k:]
		}
		select {
		case <-wdone:
		case <-time.After(60 * time.Second):
			rt.Fatalf("VIOL[c10-obfs4-wedge]: the writer has not finished %d Writes within 60 s while the peer's frames were processed\n%s", nw, wire.Stacks())
		}
		if err := s.N.WaitQuiescentFor(60*time.Second, s.RealSide); err != nil {
			rt.Fatalf("VIOL[c10-obfs4-wedge]: %v", err)
		}
		if werr != "" {
			rt.Fatalf("%s (role client=%v, iat %d, %d seed packets)", werr, realIsClient, br.IAT, seedPkts)
		}
		if pv, stk := s.Ep.Panic(); pv != nil {
			rt.Fatalf("VIOL[c10-obfs4-panic]: reader panicked: %v\n%s", pv, stk)
		}
		if rerr := s.Ep.ReadErr(); rerr != nil {
			rt.Fatalf("VIOL[c10-obfs4-read-error]: Read failed on authenticated, well-formed frames: %v", rerr)
		}
		if !bytes.Equal(s.Ep.Got(), want) {
			rt.Fatalf("VIOL[c10-obfs4-bogus-data]: delivered %d bytes, the peer sent %d bytes of payload", s.Ep.GotLen(), len(want))
		}
		cls := []string{"fww"}
		nt := realIsClient && seedPkts >= 5
		if nt {
			cls = append(cls, "fww-seed-flood-at-client")
		}
		c.Case(ev.Hash("fww", rk, realIsClient, br.IAT, fmt.Sprint(sizes), nf, seedPkts), nt, cls, func() any {
			return map[string]any{"unit": "obfs4-frames-while-writing", "real_is_client": realIsClient, "iat": br.IAT, "writes": nw, "frames": nf, "seed_packets": seedPkts}
		})
	})
}

func FuzzVerifC10Obfs4Frames(f *testing.F) {
	vfSetup(f)
	f.Add([]byte{0, 0, 0, 10, 0, 0, 10, 1})
	f.Add([]byte{1, 0, 0, 10, 0, 0, 11, 0})
	f.Add([]byte{0, 1, 0, 24, 0, 0, 24, 3})
	f.Add([]byte{2, 0, 0, 1, 0, 0, 0, 0})
	f.Add([]byte{3, 0, 1, 0, 0, 0, 0, 2})
	f.Add([]byte{0, 0, 5, 147, 0, 0xff, 0xff, 1, 0, 0, 0, 1, 0, 0, 1, 0})
	br := vfBridge{ID: refobfs4.NewIdentity(vfEnt(61)(52)), Seed: vfEnt(62)(24)}
	f.Fuzz(func(t *testing.T, in []byte) {
		var frames []vf10Frame
		for len(in) >= 8 && len(frames) < 12 {
			b := in[:8]
			in = in[8:]
			p := int(binary.BigEndian.Uint16(b[2:4])) % 1428
			pad := int(b[4]) % (1428 - p)
			switch b[0] % 4 {
			case 2:
				frames = append(frames, vf10Frame{Kind: "short", Short: int(b[3]) % 3})
			case 3:
				frames = append(frames, vf10Frame{Kind: "raw", Raw: 1 + int(binary.BigEndian.Uint16(b[2:4]))%3000})
			default:
				frames = append(frames, vf10Frame{Kind: "packet", Typ: b[1], Payload: p, Pad: pad, Declared: int(binary.BigEndian.Uint16(b[5:7]))})
			}
		}
		if len(frames) == 0 {
			return
		}
		ctl := byte(len(frames))
		if len(in) > 0 {
			ctl = in[0]
		}
		msg, _ := vf10RunFrames(br, uint64(ctl), ctl&1 == 1, frames, []int{1 + int(ctl)}, []int{1, 7, 1427, 65536}[int(ctl>>1)%4], []string{"eof", "readerr"}[int(ctl>>3)%2])
		if msg != "" && msg[:5] != "INFRA" {
			t.Fatalf("%s\nframes=%v", msg, frames)
		}
	})
}

// ---- T4: cut enumeration -----------------------------------------------------------------------

// vf10CutCase cuts a valid exchange at one offset of the stream the real side reads
// (kind eof / readerr) or of the stream it writes (kind writeerr).
func vf10CutCase(realIsClient bool, kind string, off int) (string, int) {
	br := vfBridge{ID: refobfs4.NewIdentity(vfEnt(71)(52)), Seed: vfEnt(72)(24)}
	ent := vfEnt(uint64(off)*4 + 73)
	n := wire.New()
	defer n.Shutdown()
	real := wire.B
	var ep *drive.Endpoint
	pub := refobfs4.Identity{Pub: br.ID.Pub, NodeID: br.ID.NodeID}
	msg1, msg2 := vfCounterStream(0, 0, 300), vfCounterStream(1, 0, 1500)
	if kind == "writeerr" {
		n.WriteErrAt(real, int64(off), vf10Err)
	}
	var incoming []byte // what the real side is going to read, in full
	var wantGot []byte
	if realIsClient {
		real = wire.A
		if kind == "writeerr" {
			n.WriteErrAt(wire.B, -1, nil)
			n.WriteErrAt(wire.A, int64(off), vf10Err)
		}
		cf, cargs, err := vfClientArgs(br, false, 0)
		if err != nil {
			return "INFRA: " + err.Error(), 0
		}
		ep = drive.Start(n, wire.A, func() (net.Conn, error) { return cf.Dial("tcp", "192.0.2.1:1", vfDialFn(n.Conn(wire.A)), cargs) })
		if err := n.WaitQuiescent(wire.A); err != nil {
			return "VIOL[c10-obfs4-wedge]: " + err.Error(), 0
		}
		hs := n.Take(wire.A)
		sv := &refobfs4.Server{ID: br.ID, Key: refobfs4.NewEKey(ent), Pad: nil}
		if err := sv.ParseClient(hs, vfHourNow()); err != nil {
			if kind == "writeerr" {
				// the client's own handshake was cut by the injected write error
				if m := vf10Finish(n, real, "eof"); m != "" {
					return m, 0
				}
				if pv, st := ep.Panic(); pv != nil {
					return fmt.Sprintf("VIOL[c10-obfs4-panic]: %v\n%s", pv, st), 0
				}
				if !ep.SetupDone() || ep.SetupErr() == nil {
					return fmt.Sprintf("VIOL[c10-obfs4-write-error-ignored]: Dial did not fail although writing the handshake failed at byte %d (done=%v err=%v)", off, ep.SetupDone(), ep.SetupErr()), 0
				}
				return "", len(hs)
			}
			return "INFRA: reference server: " + err.Error(), 0
		}
		_, s2c := refobfs4.Keys(sv.KeySeed)
		enc := refobfs4.NewEncoder(s2c)
		incoming = append(sv.Response(), enc.Frame(refobfs4.PktSeed, br.Seed, 0)...)
		incoming = append(incoming, enc.Chop(msg2)...)
		wantGot = msg2
	} else {
		sf, err := vfServerFactory(br)
		if err != nil {
			return "INFRA: " + err.Error(), 0
		}
		ep = drive.Start(n, wire.B, func() (net.Conn, error) { return sf.WrapConn(n.Conn(wire.B)) })
		cl := &refobfs4.Client{ID: pub, Key: refobfs4.NewEKey(ent), Pad: ent(refobfs4.ClientMinPad), Hour: vfHourNow()}
		// the reference cannot know the keys before the response; send the handshake,
		// then (if not cut yet) derive keys and send data
		hs := append([]byte(nil), cl.Handshake()...)
		if kind != "writeerr" && off <= len(hs) {
			n.Inject(wire.A, hs)
			return vf10CutDeliver(n, ep, real, kind, off, nil)
		}
		n.Inject(wire.A, hs)
		n.ReleaseAll(wire.A)
		if err := n.WaitQuiescent(wire.B); err != nil {
			return "VIOL[c10-obfs4-wedge]: " + err.Error(), 0
		}
		resp := n.Take(wire.B)
		sh, err := cl.ParseResponse(resp)
		if err != nil {
			if kind == "writeerr" {
				if m := vf10Finish(n, real, "eof"); m != "" {
					return m, 0
				}
				if pv, st := ep.Panic(); pv != nil {
					return fmt.Sprintf("VIOL[c10-obfs4-panic]: %v\n%s", pv, st), 0
				}
				if !ep.SetupDone() || ep.SetupErr() == nil {
					return fmt.Sprintf("VIOL[c10-obfs4-write-error-ignored]: WrapConn did not fail although writing the response failed at byte %d", off), 0
				}
				return "", len(resp)
			}
			return "INFRA: reference client: " + err.Error(), 0
		}
		c2s, _ := refobfs4.Keys(sh.KeySeed)
		enc := refobfs4.NewEncoder(c2s)
		incoming = enc.Chop(msg1)
		incoming = append(incoming, enc.Frame(refobfs4.PktPayload, nil, 30)...)
		wantGot = msg1
		if kind != "writeerr" {
			off -= len(hs)
		}
	}
	if kind == "writeerr" {
		// handshake got through; now the real side's data writes hit the error
		n.Inject(real.Peer(), incoming)
		n.ReleaseAll(real.Peer())
		if err := n.WaitQuiescent(real); err != nil {
			return "VIOL[c10-obfs4-wedge]: " + err.Error(), 0
		}
		if ep.Conn() != nil {
			var res drive.Result
			for i := 0; i < 4; i++ {
				res, _, _ = ep.Write(vfCounterStream(9, 0, 5000))
				if res.Failed() {
					return "VIOL[c10-obfs4-panic]: Write: " + res.String(), 0
				}
				if res.Err != nil || n.WriteErrHits(real) > 0 {
					break
				}
			}
			if res.Err == nil && n.WriteErrHits(real) > 0 {
				return fmt.Sprintf("VIOL[c10-obfs4-write-error-ignored]: Write reported success although the connection failed at byte %d of the outgoing stream", off), 0
			}
		}
		if m := vf10Finish(n, real, "eof"); m != "" {
			return m, 0
		}
		return "", 0
	}
	n.Inject(real.Peer(), incoming)
	return vf10CutDeliver(n, ep, real, kind, off, wantGot)
}

func vf10CutDeliver(n *wire.Net, ep *drive.Endpoint, real wire.Side, kind string, off int, wantGot []byte) (string, int) {
	total := n.Pending(real.Peer())
	base := n.Released(real.Peer())
	if off > total {
		off = total
	}
	// deliver in two segments so that the cut is not always on a read boundary
	if off > 3 {
		n.Release(real.Peer(), off/2)
		if err := n.WaitQuiescent(real); err != nil {
			return "VIOL[c10-obfs4-wedge]: " + err.Error(), total
		}
	}
	n.Release(real.Peer(), off-int(n.Released(real.Peer())-base))
	if err := n.WaitQuiescent(real); err != nil {
		return "VIOL[c10-obfs4-wedge]: " + err.Error(), total
	}
	if kind == "eof" {
		n.EOF(real.Peer())
	} else {
		n.ReadErrAt(real.Peer(), n.Consumed(real.Peer()), vf10Err)
		n.EOF(real.Peer())
	}
	if err := n.WaitQuiescent(real); err != nil {
		if err2 := n.WaitQuiescentFor(wire.WatchdogDefault*3, real); err2 != nil {
			return "VIOL[c10-obfs4-wedge]: " + err2.Error(), total
		}
	}
	if pv, st := ep.Panic(); pv != nil {
		return fmt.Sprintf("VIOL[c10-obfs4-panic]: cut (%s) at %d: %v\n%s", kind, off, pv, st), total
	}
	if !ep.Exited() {
		// a server that rejected the handshake drains until EOF: it has got EOF
		return fmt.Sprintf("VIOL[c10-obfs4-call-hangs]: the call in progress has not returned after the connection was cut (%s) at offset %d of %d", kind, off, total), total
	}
	if !ep.SetupDone() {
		return fmt.Sprintf("VIOL[c10-obfs4-call-hangs]: handshake has not returned after the cut at %d", off), total
	}
	got := ep.Got()
	if wantGot != nil {
		if len(got) > len(wantGot) || !bytes.Equal(got, wantGot[:len(got)]) {
			return fmt.Sprintf("VIOL[c10-obfs4-bogus-data]: after a cut at %d the endpoint delivered %d bytes that are not a prefix of what the peer sent", off, len(got)), total
		}
	} else if len(got) != 0 {
		return "VIOL[c10-obfs4-bogus-data]: data surfaced from a cut handshake", total
	}
	if ep.SetupErr() == nil && ep.ReadErr() == nil {
		return fmt.Sprintf("VIOL[c10-obfs4-no-error]: connection was cut (%s) at %d but neither the handshake nor Read reported an error", kind, off), total
	}
	return "", total
}

func TestVerifC10Obfs4Cuts(t *testing.T) {
	vfSetup(t)
	c := ev.For("C10")
	c.Rule("obfs4-cuts: a valid exchange (handshake with minimum padding on the reference side, then 300 / 1500 bytes of data in frames) is cut by EOF or an injected read error at every byte offset of the stream the real side reads (quick: every 5th offset plus field boundaries +-1), and by an injected write error at sampled offsets of the stream it writes, for both roles; oracle: no panic, the call in progress returns an error, delivered bytes are a prefix of the peer's data")
	shard, nshards := ev.IntEnv("VERIF_SHARD", 0), ev.IntEnv("VERIF_NSHARDS", 1)
	stride := 1
	if !ev.Thorough() {
		stride = 5
	}
	var count int64
	idx := 0
	for _, realIsClient := range []bool{true, false} {
		for _, kind := range []string{"eof", "readerr"} {
			total := 1700 // response 96 + seed frame 45 + 1542 bytes of frames, and a little beyond
			if !realIsClient {
				total = 530 // handshake 141 + 372 bytes of frames, and a little beyond
			}
			for off := 0; off <= total; off++ {
				boundary := false
				for _, b := range []int{0, 32, 64, 96, 112, 128, 141, 143, 162, 462, 513, 1589, 1683} {
					if off >= b-1 && off <= b+1 {
						boundary = true
					}
				}
				if !boundary && off%stride != int(ev.IntEnv("VERIF_SEED", 1))%stride {
					continue
				}
				idx++
				if idx%nshards != shard {
					continue
				}
				msg, _ := vf10CutCase(realIsClient, kind, off)
				if msg != "" {
					t.Fatalf("%s\nrealIsClient=%v kind=%s offset=%d", msg, realIsClient, kind, off)
				}
				count++
			}
		}
		for _, off := range []int{0, 1, 31, 32, 100, 140, 141, 142, 500, 1000, 3000, 8191, 8192, 8300, 9000} {
			idx++
			if idx%nshards != shard {
				continue
			}
			if msg, _ := vf10CutCase(realIsClient, "writeerr", off); msg != "" {
				t.Fatalf("%s\nrealIsClient=%v kind=writeerr offset=%d", msg, realIsClient, off)
			}
			count++
		}
	}
	c.Bulk(count, count)
	c.Class("obfs4-cut-cases", count)
	c.Sample(ev.Hash("cuts", shard), map[string]any{"stage": "obfs4-cuts", "cases": count, "stride": stride})
	_ = detrand.Used
}

// TestVerifC10Obfs4HandshakeMemory feeds megabytes of non-matching bytes to a
// handshaking endpoint and measures the retained heap: what a connection holds
// must not grow with the input.
func TestVerifC10Obfs4HandshakeMemory(t *testing.T) {
	vfSetup(t)
	c := ev.For("C10")
	c.Rule("obfs4-handshake-memory: 8 MiB of bytes that never contain the mark are fed to a handshaking client / server in 64 KiB segments; after a forced GC the heap retained since before the feed must stay under 2 MiB (a connection that buffers its input would retain >= 8 MiB)")
	br := vfBridge{ID: refobfs4.NewIdentity(vfEnt(81)(52)), Seed: vfEnt(82)(24)}
	var n0 int64
	for _, realIsClient := range []bool{true, false} {
		n := wire.New()
		real := wire.B
		var ep *drive.Endpoint
		if realIsClient {
			real = wire.A
			cf, cargs, err := vfClientArgs(br, false, 0)
			if err != nil {
				t.Fatalf("INFRA: %v", err)
			}
			ep = drive.Start(n, wire.A, func() (net.Conn, error) { return cf.Dial("tcp", "192.0.2.1:1", vfDialFn(n.Conn(wire.A)), cargs) })
		} else {
			sf, err := vfServerFactory(br)
			if err != nil {
				t.Fatalf("INFRA: %v", err)
			}
			ep = drive.Start(n, wire.B, func() (net.Conn, error) { return sf.WrapConn(n.Conn(wire.B)) })
		}
		if err := n.WaitQuiescent(real); err != nil {
			t.Fatalf("VIOL[c10-obfs4-wedge]: %v", err)
		}
		n.Take(real) // drop the client's own handshake
		chunk := bytes.Repeat([]byte{0xa5}, 65536)
		runtime.GC()
		var m0, m1 runtime.MemStats
		runtime.ReadMemStats(&m0)
		for i := 0; i < 128 && !ep.Exited(); i++ {
			n.Inject(real.Peer(), chunk)
			n.ReleaseAll(real.Peer())
			if err := n.WaitQuiescent(real); err != nil {
				t.Fatalf("VIOL[c10-obfs4-wedge]: %v", err)
			}
		}
		runtime.GC()
		runtime.ReadMemStats(&m1)
		grown := int64(m1.HeapAlloc) - int64(m0.HeapAlloc)
		if grown > 2<<20 {
			t.Fatalf("VIOL[c10-obfs4-buffer-growth]: realIsClient=%v: the heap retained %d bytes more after 8 MiB of junk were sent to a handshaking endpoint (unread on the wire: %d): input is being buffered without bound", realIsClient, grown, n.Unread(real.Peer()))
		}
		if pv, st := ep.Panic(); pv != nil {
			t.Fatalf("VIOL[c10-obfs4-panic]: %v\n%s", pv, st)
		}
		n.Shutdown()
		n0++
		c.Sample(ev.Hash("mem", realIsClient), map[string]any{"stage": "obfs4-handshake-memory", "real_is_client": realIsClient, "heap_growth_bytes": grown})
	}
	c.Bulk(n0, n0)
}
