//go:build verif

package obfs4

// C09 — traffic shaping follows the bridge's seeded distributions and never
// crashes: (a) exhaustive padding arithmetic on the real padBurst, (b) wire
// write sizes of real endpoints over generated seeds / IAT modes / write sizes,
// frames opened by the reference peer.

import (
	"bytes"
	"encoding/json"
	"fmt"
	"net"
	"os"
	"sort"
	"sync"
	"sync/atomic"
	"testing"
	"time"

	"pgregory.net/rapid"

	"gitlab.com/yawning/obfs4.git/common/drbg"
	"gitlab.com/yawning/obfs4.git/common/probdist"
	"gitlab.com/yawning/obfs4.git/internal/verifkit/detrand"
	"gitlab.com/yawning/obfs4.git/internal/verifkit/drive"
	"gitlab.com/yawning/obfs4.git/internal/verifkit/ev"
	"gitlab.com/yawning/obfs4.git/internal/verifkit/refdist"
	"gitlab.com/yawning/obfs4.git/internal/verifkit/refobfs4"
	"gitlab.com/yawning/obfs4.git/internal/verifkit/wire"
	"gitlab.com/yawning/obfs4.git/transports/obfs4/framing"
)

const vfSeg = framing.MaximumSegmentLength // 1448

// vfAllowedPad lists the amounts of padding the property allows for a burst
// whose unpadded length is p when the sampled target is v.
func vfAllowedPad(p, v int) []int {
	need := ((v-p)%vfSeg + vfSeg) % vfSeg
	switch {
	case need == 0 && v == vfSeg:
		// a target of 1448 is reached both by an empty tail and by a full segment
		return []int{0, vfSeg}
	case need == 0:
		return []int{0}
	case need > headerLength:
		return []int{need}
	case need < headerLength:
		return []int{need + vfSeg + headerLength}
	}
	// need == 21: the statement says "smaller than a header" gets the extra frame,
	// the code treats "not larger"; a bare 21-byte frame reaches the target exactly,
	// so both outcomes satisfy the property.
	return []int{headerLength, headerLength + vfSeg + headerLength}
}

// ---- (a) padding arithmetic ---------------------------------------------------------

type vfPadCase struct {
	Prefix int `json:"prefix_segments"`
	Tail   int `json:"tail"`
	Target int `json:"target"`
}

type vfPadRig struct {
	conn *obfs4Conn
	dec  *refobfs4.Decoder
	buf  bytes.Buffer
	fill []byte
}

func vfNewPadRig() *vfPadRig {
	key := detrand.Bytes(0xc09, framing.KeyLength)
	return &vfPadRig{conn: &obfs4Conn{encoder: framing.NewEncoder(key)}, dec: refobfs4.NewDecoder(key), fill: make([]byte, 4*vfSeg)}
}

func (r *vfPadRig) run(pc vfPadCase) (msg string, boundary21 int) {
	r.buf.Reset()
	before := pc.Prefix*vfSeg + pc.Tail
	r.buf.Write(r.fill[:before])
	var perr error
	func() {
		defer func() {
			if p := recover(); p != nil {
				perr = fmt.Errorf("panic: %v", p)
			}
		}()
		perr = r.conn.padBurst(&r.buf, pc.Target)
	}()
	if perr != nil {
		return fmt.Sprintf("VIOL[c09-padburst-error]: padBurst(tail %d, target %d): %v", pc.Tail, pc.Target, perr), 0
	}
	added := r.buf.Len() - before
	if added < 0 || added >= 2*vfSeg+2*headerLength {
		return fmt.Sprintf("VIOL[c09-unbounded-padding]: padBurst(tail %d, target %d) appended %d bytes", pc.Tail, pc.Target, added), 0
	}
	ok := false
	for _, a := range vfAllowedPad(before, pc.Target) {
		if a == added {
			ok = true
		}
	}
	if !ok {
		return fmt.Sprintf("VIOL[c09-burst-length]: burst of %d bytes (tail %d) padded to target %d: %d bytes appended, burst now ends at %d mod 1448; allowed amounts %v", before, pc.Tail, pc.Target, added, (before+added)%vfSeg, vfAllowedPad(before, pc.Target)), 0
	}
	need := ((pc.Target-before)%vfSeg + vfSeg) % vfSeg
	if need == headerLength {
		if added == headerLength {
			boundary21 = 1
		} else {
			boundary21 = 2
		}
	}
	r.dec.Feed(r.buf.Bytes()[before:])
	frames, err := r.dec.All()
	if err != nil || r.dec.Buffered() != 0 {
		return fmt.Sprintf("VIOL[c09-padding-frames]: padding appended for (tail %d, target %d) does not decode as whole frames: %v (%d bytes left)", pc.Tail, pc.Target, err, r.dec.Buffered()), 0
	}
	for _, f := range frames {
		if f.WireLen > vfSeg {
			return fmt.Sprintf("VIOL[c09-frame-too-long]: padding frame of %d bytes", f.WireLen), 0
		}
		if f.Type != refobfs4.PktPayload || len(f.Payload) != 0 {
			return fmt.Sprintf("VIOL[c09-padding-frames]: padding frame has type %d and %d payload bytes", f.Type, len(f.Payload)), 0
		}
		for _, b := range f.Pad {
			if b != 0 {
				return "VIOL[c09-padding-frames]: padding is not all-zero", 0
			}
		}
	}
	return "", boundary21
}

func TestVerifC09PadArithmetic(t *testing.T) {
	vfSetup(t)
	c := ev.For("C09")
	c.Rule("pad-arithmetic: the real padBurst on a connection with a live encoder, for every target 0..1448 x tail lengths (thorough: all 0..1447; quick: 96 tails around the boundaries) x burst prefixes of 0, 1 and 3 whole segments; oracle: amount appended is one the property allows (target reached, or target + 21 when the need is below a header; need == 21 accepted either way), bounded by 2x1448+42, and every appended frame opens in the reference decoder as a zero-payload packet with all-zero padding of at most 1448 bytes; every case is distinct by construction, all count as non-trivial")
	rig := vfNewPadRig()
	if rc := os.Getenv("VERIF_REPLAY_CASE"); rc != "" {
		var pc vfPadCase
		if err := json.Unmarshal([]byte(rc), &pc); err != nil {
			t.Fatalf("bad replay case: %v", err)
		}
		if msg, _ := rig.run(pc); msg != "" {
			t.Fatalf("%s", msg)
		}
		return
	}
	shard, nshards := ev.IntEnv("VERIF_SHARD", 0), ev.IntEnv("VERIF_NSHARDS", 1)
	var tails []int
	if ev.Thorough() {
		for i := 0; i < vfSeg; i++ {
			tails = append(tails, i)
		}
	} else {
		set := map[int]bool{}
		for i := 0; i < 48; i++ {
			set[i] = true
			set[vfSeg-1-i] = true
		}
		for _, v := range []int{700, 1405, 1406, 1426, 1427} {
			set[v] = true
		}
		for k := range set {
			tails = append(tails, k)
		}
		sort.Ints(tails)
	}
	var count, b21one, b21two int64
	for ti, tail := range tails {
		if ti%nshards != shard {
			continue
		}
		for _, prefix := range []int{0, 1, 3} {
			for target := 0; target <= vfSeg; target++ {
				pc := vfPadCase{prefix, tail, target}
				msg, b := rig.run(pc)
				if msg != "" {
					js, _ := json.Marshal(pc)
					fmt.Printf("VERIF-REPLAY-CASE: %s\n", js)
					t.Fatalf("%s", msg)
				}
				switch b {
				case 1:
					b21one++
				case 2:
					b21two++
				}
				count++
			}
		}
	}
	c.Bulk(count, count)
	c.Class("pad-arithmetic-cases", count)
	c.Class("pad-need-21-one-frame", b21one)
	c.Class("pad-need-21-two-frames", b21two)
	if ev.Thorough() {
		c.Subspace("padBurst (tail 0..1447) x (target 0..1448) x (prefix 0,1,3 segments)", count)
	}
	c.Sample(ev.Hash("padarith", shard), map[string]any{"unit": "pad-arithmetic", "cases": count, "tails": len(tails), "example": vfPadCase{1, 1447, 3}})
}

// ---- (b) end to end ---------------------------------------------------------------------

var (
	vfSpecialMu    sync.Mutex
	vfSpecialSeeds = map[string][][]byte{}
	vfSpecialNext  = map[string]uint64{}
)

// vfSpecialSeed returns the idx-th seed whose length table has the given property.
// vfRejectionSeeds: stored seeds whose shuffle of 0..1448 passes through a
// rejected draw of math/rand's Int31n (see C12).
var (
	vfRejOnce sync.Once
	vfRej     [][]byte
)

func vfRejectionSeeds() [][]byte {
	vfRejOnce.Do(func() {
		raw, err := os.ReadFile(os.Getenv("VERIF_DIR") + "/corpus/c12_rejection_seeds.json")
		if err != nil {
			return
		}
		var hx []string
		if json.Unmarshal(raw, &hx) != nil {
			return
		}
		for _, h := range hx {
			b := make([]byte, 24)
			if len(h) == 48 {
				for i := 0; i < 24; i++ {
					fmt.Sscanf(h[2*i:2*i+2], "%02x", &b[i])
				}
				vfRej = append(vfRej, b)
			}
		}
	})
	return vfRej
}

func vfSpecialSeed(kind string, idx int, biased bool) []byte {
	key := fmt.Sprint(kind, biased)
	vfSpecialMu.Lock()
	defer vfSpecialMu.Unlock()
	for len(vfSpecialSeeds[key]) <= idx {
		j := vfSpecialNext[key]
		vfSpecialNext[key] = j + 1
		s := detrand.Bytes(0xabc00000+j, 24)
		tb := vfSeedTable(s, biased)
		ok := false
		switch kind {
		case "single":
			ok = len(tb) == 1
		case "small":
			ok = len(tb) <= 3
		case "has1448":
			ok = vfContains(tb, vfSeg)
		case "has0":
			ok = vfContains(tb, 0)
		}
		if ok {
			vfSpecialSeeds[key] = append(vfSpecialSeeds[key], s)
		}
	}
	return vfSpecialSeeds[key][idx]
}

func vfC09Case(rt *rapid.T, c *ev.Collector) {
	rk := rapid.Uint64().Draw(rt, "randKey")
	defer vfRandSeedKey(rk)()
	var br vfBridge
	br.ID = refobfs4.NewIdentity(detrand.Bytes(rapid.Uint64().Draw(rt, "identity"), 52))
	br.Biased = rapid.Bool().Draw(rt, "biased")
	br.IAT = rapid.SampledFrom([]int{0, 0, 1, 2, 2}).Draw(rt, "iat")
	var cls []string
	seedClass := rapid.SampledFrom([]string{"uniform", "uniform", "has0", "has0", "small", "single", "has1448", "rejected-draw"}).Draw(rt, "seedClass")
	if seedClass == "uniform" {
		br.Seed = detrand.Bytes(rapid.Uint64().Draw(rt, "seed"), 24)
	} else if seedClass == "rejected-draw" {
		rs := vfRejectionSeeds()
		if len(rs) == 0 {
			rt.Fatalf("INFRA: corpus/c12_rejection_seeds.json missing")
		}
		br.Seed = append([]byte(nil), rs[rapid.IntRange(0, len(rs)-1).Draw(rt, "rejSeed")]...)
	} else {
		br.Seed = vfSpecialSeed(seedClass, rapid.IntRange(0, 7).Draw(rt, "specialIdx"), br.Biased)
	}
	serverTable := vfSeedTable(br.Seed, br.Biased)
	serverFull := vfSeedDistFull(br.Seed, br.Biased)
	// The table a seed denotes is deployed behaviour (bridge and client, possibly
	// of different versions, derive it independently from the seed the bridge
	// sends): it must be the one of the independent reference.
	if ref := refdist.New(br.Seed, 0, vfSeg, br.Biased); fmt.Sprint(ref.Values) != fmt.Sprint(serverTable) {
		rt.Fatalf("VIOL[c09-table-differs-from-deployed-mapping]: seed %x (biased=%v) gives the length table %v, the deployed seed -> table mapping gives %v", br.Seed, br.Biased, serverTable, ref.Values)
	} else if ref.Rejections > 0 {
		cls = append(cls, "seed-with-rejected-draw")
	}
	cls = append(cls, "e2e", "seed-"+seedClass, fmt.Sprintf("iat-%d", br.IAT))
	realIsClient := rapid.Bool().Draw(rt, "realIsClient")
	withhold := realIsClient && rapid.Bool().Draw(rt, "withholdSeedFrame")
	ent := vfEnt(rapid.Uint64().Draw(rt, "refEntropy"))
	s, err := vfRefSessionOpt(br, ent, realIsClient, false, withhold)
	if s != nil && s.N != nil {
		defer s.N.Shutdown()
	}
	if err != nil {
		rt.Fatalf("VIOL[c09-session]: %v", err)
	}
	oc, ok := s.Ep.Conn().(*obfs4Conn)
	if !ok {
		rt.Fatalf("INFRA: connection is %T", s.Ep.Conn())
	}
	dir := byte(0)
	if !realIsClient {
		dir = 1
	}
	nw := rapid.IntRange(1, 5).Draw(rt, "writes")
	woff := 0
	needSmall := false
	budget := 6000
	var hist []string
	seedDelivered := !withhold
	seedSplit := false
	largeWrite := false
	peerSeed := false
	for i := 0; i < nw; i++ {
		if withhold && !seedDelivered && (i == nw-1 || rapid.Bool().Draw(rt, "deliverSeedNow")) {
			s.N.Inject(s.RefSide, s.HeldSeedFrame)
			// the frame may reach the client in two pieces (a segment boundary inside it)
			if cut := rapid.IntRange(0, len(s.HeldSeedFrame)-1).Draw(rt, "seedFrameCut"); cut > 0 && rapid.Bool().Draw(rt, "seedFrameSplit") {
				s.N.Release(s.RefSide, cut)
				if err := s.N.WaitQuiescent(s.RealSide); err != nil {
					rt.Fatalf("VIOL[c09-wedge]: %v", err)
				}
				seedSplit = true
				hist = append(hist, fmt.Sprintf("seed-frame-first-%d-bytes", cut))
			}
			s.N.ReleaseAll(s.RefSide)
			if err := s.N.WaitQuiescent(s.RealSide); err != nil {
				rt.Fatalf("VIOL[c09-wedge]: %v", err)
			}
			seedDelivered = true
			hist = append(hist, "seed-frame-delivered")
		}
		if rapid.IntRange(0, 3).Draw(rt, "peerSendsSeedPacket") == 0 && (!realIsClient || seedDelivered) {
			// The peer sends a PRNG-seed packet of its own (well-formed: 24 bytes; or
			// 23 / 25 bytes).  A bridge never takes its shaping from a client, and a
			// client that has the bridge's seed ... is told a new one by the BRIDGE
			// only; here: a client-sent one must leave the bridge's tables untouched.
			if !realIsClient {
				pl := detrand.Bytes(rapid.Uint64().Draw(rt, "peerSeed"), rapid.SampledFrom([]int{24, 24, 24, 23, 25, 0}).Draw(rt, "peerSeedLen"))
				s.N.Inject(s.RefSide, s.Enc.Frame(refobfs4.PktSeed, pl, rapid.SampledFrom([]int{0, 0, 7}).Draw(rt, "peerSeedPad")))
				s.N.ReleaseAll(s.RefSide)
				if err := s.N.WaitQuiescent(s.RealSide); err != nil {
					rt.Fatalf("VIOL[c09-wedge]: %v", err)
				}
				if rerr := s.Ep.ReadErr(); rerr != nil {
					rt.Fatalf("VIOL[c09-session]: bridge Read failed on a client-sent seed packet of %d bytes: %v", len(pl), rerr)
				}
				hist = append(hist, fmt.Sprintf("client-sends-seed-packet(%d)", len(pl)))
				peerSeed = true
			}
		}
		table := vfDistValues(oc.lenDist)
		if realIsClient && seedDelivered {
			// once the client has processed the server's seed it uses the server's distribution
			if fmt.Sprint(table) != fmt.Sprint(serverTable) {
				rt.Fatalf("VIOL[c09-client-ignores-seed]: client has processed the server's seed frame but its length table is %v, the server's is %v", table, serverTable)
			}
			if vfDistFull(oc.lenDist) != serverFull {
				rt.Fatalf("VIOL[c09-client-distribution-differs]: client has processed the server's seed frame and uses the same %d values, but its weights / sampling tables differ from the distribution the bridge builds from that seed (biased=%v)", len(table), br.Biased)
			}
		}
		if !realIsClient && vfDistFull(oc.lenDist) != serverFull {
			rt.Fatalf("VIOL[c09-server-table]: server connection's weights / sampling tables differ from a distribution built from its seed (biased=%v)", br.Biased)
		}
		if !realIsClient && fmt.Sprint(table) != fmt.Sprint(serverTable) {
			rt.Fatalf("VIOL[c09-server-table]: server connection uses table %v, a distribution built from its seed gives %v", table, serverTable)
		}
		n := rapid.SampledFrom([]int{0, 1, 2, 700, 1405, 1406, 1407, 1426, 1427, 1428, 2854, 4281}).Draw(rt, "size")
		if rapid.IntRange(0, 2).Draw(rt, "randSize") == 0 {
			n = rapid.IntRange(0, 6000).Draw(rt, "n")
		}
		if br.IAT == iatNone && rapid.IntRange(0, 5).Draw(rt, "largeWrite") == 0 {
			// writes far beyond what the relay's 32 KiB copies produce
			n = rapid.SampledFrom([]int{32768, 64569, 64570, 65535, 65536, 65537, 65641, 131072, 200000}).Draw(rt, "largeSize")
			if rapid.Bool().Draw(rt, "largeFree") {
				n = rapid.IntRange(6001, 300000).Draw(rt, "largeN")
			}
			largeWrite = true
		}
		if br.IAT != iatNone {
			if n > budget {
				n = budget
			}
			budget -= n
		}
		data := vfCounterStream(dir, woff, n)
		res, wn, id := s.Ep.Write(data)
		hist = append(hist, fmt.Sprintf("write(%d)", n))
		if res.Failed() {
			rt.Fatalf("VIOL[c09-write-panic]: Write(%d bytes) with iat-mode %d, seed %x (table %v): %s", n, br.IAT, br.Seed, table, res)
		}
		if res.Err != nil || wn != n {
			rt.Fatalf("VIOL[c09-write-error]: Write(%d) = %d, %v", n, wn, res.Err)
		}
		var lens []int
		w, _, _ := s.N.Snapshot()
		totalLen := 0
		for _, r := range w {
			if r.Side == s.RealSide && r.Bracket == id {
				lens = append(lens, r.N)
				totalLen += r.N
			}
		}
		// unpadded burst length
		p := 0
		for rem := n; rem > 0; rem -= maxPacketPayloadLength {
			k := rem
			if k > maxPacketPayloadLength {
				k = maxPacketPayloadLength
			}
			p += headerLength + k
		}
		burstOK := func(total int) (bool, bool) {
			small := false
			for _, v := range table {
				for _, a := range vfAllowedPad(p, v) {
					if p+a == total {
						need := ((v-p)%vfSeg + vfSeg) % vfSeg
						if need >= 1 && need <= headerLength {
							small = true
						}
						return true, small
					}
				}
			}
			return false, false
		}
		switch br.IAT {
		case iatNone:
			if n == 0 && totalLen == 0 {
				// nothing to send and a sampled target of 0: no wire write is fine
				break
			}
			if len(lens) != 1 {
				// not demanded by the property: a burst is everything one Write puts on the wire
				cls = append(cls, "mode0-burst-in-several-wire-writes")
			}
			okb, small := burstOK(totalLen)
			if !okb {
				rt.Fatalf("VIOL[c09-burst-length]: iat-mode 0: Write(%d) put %d bytes on the wire (%d of frames carrying data); no value of the length table %v explains the padding", n, totalLen, p, table)
			}
			needSmall = needSmall || small
		case iatEnabled:
			for j, l := range lens {
				if l > vfSeg || (j < len(lens)-1 && l != vfSeg) || l == 0 {
					rt.Fatalf("VIOL[c09-iat-write-size]: iat-mode 1: wire writes %v for Write(%d): all but the last must be exactly 1448, none larger or empty", lens, n)
				}
			}
			okb, small := burstOK(totalLen)
			if !okb {
				rt.Fatalf("VIOL[c09-burst-length]: iat-mode 1: Write(%d) put %d bytes on the wire (%d of frames carrying data); no value of the length table %v explains the padding", n, totalLen, p, table)
			}
			needSmall = needSmall || small
		case iatParanoid:
			for _, l := range lens {
				inTable := l != 0 && vfContains(table, l)
				if !inTable && !(l == vfSeg && vfContains(table, 0)) {
					rt.Fatalf("VIOL[c09-paranoid-write-size]: iat-mode 2: wire writes %v for Write(%d): %d is not a non-zero value of the length table %v", lens, n, l, table)
				}
			}
			if totalLen < p {
				rt.Fatalf("VIOL[c09-paranoid-short]: iat-mode 2: Write(%d) put only %d bytes on the wire, the frames carrying data need %d", n, totalLen, p)
			}
		}
		// the reference peer opens every frame
		s.Dec.Feed(s.N.Take(s.RealSide))
		frames, err := s.Dec.All()
		if err != nil || s.Dec.Buffered() != 0 {
			rt.Fatalf("VIOL[c09-frames]: burst of Write(%d) does not decode as whole frames: %v (%d bytes left)", n, err, s.Dec.Buffered())
		}
		var got []byte
		for _, f := range frames {
			if f.WireLen > vfSeg {
				rt.Fatalf("VIOL[c09-frame-too-long]: frame of %d bytes on the wire", f.WireLen)
			}
			got = append(got, f.Payload...)
		}
		if !bytes.Equal(got, data) {
			rt.Fatalf("VIOL[c09-frames]: frames of Write(%d) carry %d payload bytes", n, len(got))
		}
		woff += n
	}
	if seedSplit {
		cls = append(cls, "client-seed-frame-in-two-pieces")
	}
	if withhold {
		cls = append(cls, "client-seed-frame-withheld-then-delivered")
	}
	if largeWrite {
		cls = append(cls, "write-larger-than-6000")
	}
	if peerSeed {
		cls = append(cls, "client-sent-seed-packet-to-bridge")
	}
	nt := len(serverTable) <= 3 || vfContains(serverTable, 0) || vfContains(serverTable, vfSeg) || needSmall
	if needSmall {
		cls = append(cls, "padding-need-1..21")
	}
	c.Case(ev.Hash(br.Seed, br.IAT, br.Biased, realIsClient, fmt.Sprint(hist), rk), nt, cls, func() any {
		return map[string]any{"seed": ev.Hex(br.Seed), "table_size": len(serverTable), "iat": br.IAT, "biased": br.Biased, "real_is_client": realIsClient, "history": hist}
	})
}

func TestVerifC09EndToEnd(t *testing.T) {
	vfSetup(t)
	c := ev.For("C09")
	c.Rule("end-to-end: real client or real server (public factories) against the reference peer; generated seed (uniform, or pre-searched: table contains 0 / contains 1448 / has <= 3 entries / has one entry / the shuffle passes through a rejected draw), whose table must equal the independent statement of the deployed seed -> table mapping (refdist), IAT mode, bias flag, 1-5 writes of 0..6000 bytes (iat-mode 0: one in six up to 300000 bytes, incl. 32768 / 65536 / 131072 and neighbours); the live length table of the connection is read by reflection before each write; oracle on the logged wire writes: mode 0 one write per burst whose length is explained by some table value under the padding arithmetic, mode 1 additionally segments of exactly 1448 except the last, mode 2 every write is a non-zero table value (1448 when 0 is in the table); the reference peer opens every frame (<= 1448, payload intact); a client uses the server's table once the seed frame has been processed (half of the client cases withhold the seed frame first, and half of those deliver it in two pieces cut at a drawn offset); a bridge keeps its own table when the client sends it a PRNG-seed packet (24 bytes, or 0 / 23 / 25); Write returns without panic; non-trivial = table with <= 3 entries or containing 0 or 1448, or a padding need of 1..21; fingerprint = seed, mode, sizes, randomness key")
	c.Floor("seed-has0/e2e", 0.15)
	c.Floor("iat-2/e2e", 0.15)
	c.Floor("iat-1/e2e", 0.10)
	c.Floor("client-sent-seed-packet-to-bridge/e2e", 0.05)
	c.Floor("client-seed-frame-in-two-pieces/e2e", 0.05)
	rapid.Check(t, func(rt *rapid.T) { vfC09Case(rt, c) })
}

// ---- (b2) the server's seed frame arrives while the client is writing ---------------------

// TestVerifC09SeedWhileWriting: the length distribution is replaced (Reset) by
// the reader goroutine when the server's seed frame is processed, while the
// writer goroutine samples it.  Free-running (also under -race).
func TestVerifC09SeedWhileWriting(t *testing.T) {
	vfSetup(t)
	c := ev.For("C09")
	c.Rule("seed-while-writing: real client (public factory) whose server's seed frame is withheld; a writer goroutine performs 6..40 Writes (0..3000 bytes) back to back while the harness delivers the seed frame after a drawn number of them (free-running, also under -race); oracle: no panic / error, every burst decodes to exactly the data written with frames <= 1448, the length of every burst (iat-mode 0/1) or wire write (iat-mode 2) is explained by the client's initial table or by the bridge's table, and at the final quiescence the client uses exactly the bridge's distribution; non-trivial = the seed frame was delivered while Writes were still to come; fingerprint = seed, mode, sizes, delivery point, randomness key")
	c.Floor("seed-overlaps-writes/seed-while-writing", 0.5)
	rapid.Check(t, func(rt *rapid.T) {
		rk := rapid.Uint64().Draw(rt, "randKey")
		defer vfRandSeedKey(rk)()
		var br vfBridge
		br.ID = refobfs4.NewIdentity(detrand.Bytes(rapid.Uint64().Draw(rt, "identity"), 52))
		br.Biased = rapid.Bool().Draw(rt, "biased")
		br.IAT = rapid.SampledFrom([]int{0, 0, 0, 1, 2}).Draw(rt, "iat")
		br.Seed = detrand.Bytes(rapid.Uint64().Draw(rt, "seed"), 24)
		serverTable := vfSeedTable(br.Seed, br.Biased)
		serverFull := vfSeedDistFull(br.Seed, br.Biased)
		ent := vfEnt(rapid.Uint64().Draw(rt, "refEntropy"))
		s, err := vfRefSessionOpt(br, ent, true, false, true)
		if s != nil && s.N != nil {
			defer s.N.Shutdown()
		}
		if err != nil {
			rt.Fatalf("VIOL[c09-session]: %v", err)
		}
		oc, ok := s.Ep.Conn().(*obfs4Conn)
		if !ok {
			rt.Fatalf("INFRA: connection is %T", s.Ep.Conn())
		}
		initialTable := vfDistValues(oc.lenDist) // read before the writer starts
		nw := rapid.IntRange(6, 40).Draw(rt, "writes")
		if br.IAT != iatNone {
			nw = rapid.IntRange(4, 10).Draw(rt, "writesIAT")
		}
		sizes := make([]int, nw)
		for i := range sizes {
			sizes[i] = rapid.SampledFrom([]int{0, 1, 50, 700, 1406, 1427, 1428, 3000}).Draw(rt, "size")
			if br.IAT != iatNone && sizes[i] > 1428 {
				sizes[i] = 700
			}
		}
		deliverAfter := rapid.IntRange(0, nw-1).Draw(rt, "deliverAfter")
		type wrec struct {
			n, id int
			res   string
			bad   bool
		}
		recs := make([]wrec, nw)
		var done int32
		reached := make(chan struct{})
		fin := make(chan struct{})
		go func() {
			defer close(fin)
			off := 0
			for i, n := range sizes {
				if i == deliverAfter {
					close(reached)
				}
				res, wn, id := s.Ep.Write(vfCounterStream(0, off, n))
				recs[i] = wrec{n: n, id: id}
				if res.Failed() {
					recs[i].bad, recs[i].res = true, "VIOL[c09-write-panic]: Write("+fmt.Sprint(n)+" bytes) while the seed frame arrives: "+res.String()
					return
				}
				if res.Err != nil || wn != n {
					recs[i].bad, recs[i].res = true, fmt.Sprintf("VIOL[c09-write-error]: Write(%d) = %d, %v", n, wn, res.Err)
					return
				}
				off += n
				atomic.AddInt32(&done, 1)
			}
		}()
		<-reached
		doneAtDelivery := int(atomic.LoadInt32(&done))
		s.N.Inject(s.RefSide, s.HeldSeedFrame)
		s.N.ReleaseAll(s.RefSide)
		select {
		case <-fin:
		case <-time.After(120 * time.Second):
			rt.Fatalf("VIOL[c09-wedge]: writer has not finished %d Writes within 120 s\n%s", nw, wire.Stacks())
		}
		if err := s.N.WaitQuiescent(s.RealSide); err != nil {
			rt.Fatalf("VIOL[c09-wedge]: %v", err)
		}
		for _, r := range recs {
			if r.bad {
				rt.Fatalf("%s (iat-mode %d, seed %x, initial table %v, bridge table %v)", r.res, br.IAT, br.Seed, initialTable, serverTable)
			}
		}
		if pv, stk := s.Ep.Panic(); pv != nil {
			rt.Fatalf("VIOL[c09-write-panic]: reader panicked while processing the seed frame: %v\n%s", pv, stk)
		}
		if rerr := s.Ep.ReadErr(); rerr != nil {
			rt.Fatalf("VIOL[c09-session]: client Read failed on the seed frame: %v", rerr)
		}
		if got := vfDistValues(oc.lenDist); fmt.Sprint(got) != fmt.Sprint(serverTable) {
			rt.Fatalf("VIOL[c09-client-ignores-seed]: the seed frame has been processed, the client's length table is %v, the bridge's is %v", got, serverTable)
		}
		if vfDistFull(oc.lenDist) != serverFull {
			rt.Fatalf("VIOL[c09-client-distribution-differs]: the seed frame was processed while Writes were in progress; the client's weights / sampling tables differ from the distribution the bridge builds from that seed (biased=%v)", br.Biased)
		}
		// judge the bursts
		w, _, _ := s.N.Snapshot()
		byID := map[int][]int{}
		for _, r := range w {
			if r.Side == s.RealSide {
				byID[r.Bracket] = append(byID[r.Bracket], r.N)
			}
		}
		explained := func(p, total int) bool {
			for _, table := range [][]int{initialTable, serverTable} {
				for _, v := range table {
					for _, a := range vfAllowedPad(p, v) {
						if p+a == total {
							return true
						}
					}
				}
			}
			return false
		}
		for _, r := range recs {
			lens := byID[r.id]
			total := 0
			for _, l := range lens {
				total += l
			}
			p := 0
			for rem := r.n; rem > 0; rem -= maxPacketPayloadLength {
				k := rem
				if k > maxPacketPayloadLength {
					k = maxPacketPayloadLength
				}
				p += headerLength + k
			}
			switch br.IAT {
			case iatNone, iatEnabled:
				if r.n == 0 && total == 0 {
					continue
				}
				if !explained(p, total) {
					rt.Fatalf("VIOL[c09-burst-length]: iat-mode %d: Write(%d) put %d bytes on the wire (%d of frames carrying data) while the seed frame arrived; neither the client's initial table %v nor the bridge's table %v explains the padding", br.IAT, r.n, total, p, initialTable, serverTable)
				}
				if br.IAT == iatEnabled {
					for j, l := range lens {
						if l > vfSeg || (j < len(lens)-1 && l != vfSeg) || l == 0 {
							rt.Fatalf("VIOL[c09-iat-write-size]: iat-mode 1: wire writes %v for Write(%d)", lens, r.n)
						}
					}
				}
			case iatParanoid:
				for _, l := range lens {
					ok := l != 0 && (vfContains(initialTable, l) || vfContains(serverTable, l))
					if !ok && !(l == vfSeg && (vfContains(initialTable, 0) || vfContains(serverTable, 0))) {
						rt.Fatalf("VIOL[c09-paranoid-write-size]: iat-mode 2: wire writes %v for Write(%d): %d is in neither the client's initial table %v nor the bridge's table %v", lens, r.n, l, initialTable, serverTable)
					}
				}
			}
		}
		// everything decodes to what was written
		s.Dec.Feed(s.N.Take(s.RealSide))
		frames, err := s.Dec.All()
		if err != nil || s.Dec.Buffered() != 0 {
			rt.Fatalf("VIOL[c09-frames]: the bursts do not decode as whole frames: %v (%d bytes left)", err, s.Dec.Buffered())
		}
		var got []byte
		for _, f := range frames {
			if f.WireLen > vfSeg {
				rt.Fatalf("VIOL[c09-frame-too-long]: frame of %d bytes on the wire", f.WireLen)
			}
			got = append(got, f.Payload...)
		}
		tot := 0
		for _, n := range sizes {
			tot += n
		}
		if !bytes.Equal(got, vfCounterStream(0, 0, tot)) {
			rt.Fatalf("VIOL[c09-frames]: frames carry %d payload bytes, %d were written", len(got), tot)
		}
		overlap := doneAtDelivery < nw
		cls := []string{"seed-while-writing", fmt.Sprintf("sww-iat-%d", br.IAT)}
		if overlap {
			cls = append(cls, "seed-overlaps-writes")
		}
		c.Case(ev.Hash(br.Seed, br.IAT, br.Biased, fmt.Sprint(sizes), deliverAfter, rk), overlap, cls, func() any {
			return map[string]any{"seed": ev.Hex(br.Seed), "iat": br.IAT, "biased": br.Biased, "sizes": fmt.Sprint(sizes), "deliver_after": deliverAfter, "writes_done_at_delivery": doneAtDelivery}
		})
	})
}

// ---- (b3) one client factory, several bridges ------------------------------------------

// TestVerifC09TwoBridges: obfs4proxy uses ONE client factory for all bridges.
// Each connection's shaping follows the seed of the bridge it talks to, also
// after connections to other bridges have been made through the same factory.
func TestVerifC09TwoBridges(t *testing.T) {
	vfSetup(t)
	c := ev.For("C09")
	c.Rule("two-bridges: one client factory; connections to 2-3 bridges with different seeds (reference servers) are opened in a generated order, each processes its bridge's seed frame; then 2-6 Writes are made on the connections in a generated order; oracle: every burst of a connection is explained by the table its OWN bridge's seed denotes (refdist), its live table equals that table, payload intact; non-trivial = a Write on a connection after a LATER connection processed a different seed; fingerprint = seeds, order, sizes")
	rapid.Check(t, func(rt *rapid.T) {
		rk := rapid.Uint64().Draw(rt, "randKey")
		defer vfRandSeedKey(rk)()
		cf, err := (&Transport{}).ClientFactory("")
		if err != nil {
			rt.Fatalf("VIOL[c09-session]: %v", err)
		}
		vfSharedClientFactory = cf
		defer func() { vfSharedClientFactory = nil }()
		biased := rapid.Bool().Draw(rt, "biased")
		nb := rapid.IntRange(2, 3).Draw(rt, "bridges")
		type conn struct {
			s     *vfRefSess
			table []int
			off   int
		}
		var conns []*conn
		for i := 0; i < nb; i++ {
			var br vfBridge
			br.ID = refobfs4.NewIdentity(detrand.Bytes(rapid.Uint64().Draw(rt, "identity"), 52))
			br.Biased = biased
			br.IAT = 0
			br.Seed = detrand.Bytes(rapid.Uint64().Draw(rt, "seed"), 24)
			s, err := vfRefSessionOpt(br, vfEnt(rapid.Uint64().Draw(rt, "refEntropy")), true, rapid.Bool().Draw(rt, "legacy"), false)
			if s != nil && s.N != nil {
				defer s.N.Shutdown()
			}
			if err != nil {
				rt.Fatalf("VIOL[c09-session]: connection %d through the shared factory: %v", i, err)
			}
			conns = append(conns, &conn{s: s, table: refdist.New(br.Seed, 0, vfSeg, biased).Values})
		}
		nw := rapid.IntRange(2, 6).Draw(rt, "writes")
		nt := false
		var hist []string
		for w := 0; w < nw; w++ {
			k := rapid.IntRange(0, nb-1).Draw(rt, "conn")
			cn := conns[k]
			if k < nb-1 {
				nt = true
			}
			oc, ok := cn.s.Ep.Conn().(*obfs4Conn)
			if !ok {
				rt.Fatalf("INFRA: connection is %T", cn.s.Ep.Conn())
			}
			if live := vfDistValues(oc.lenDist); fmt.Sprint(live) != fmt.Sprint(cn.table) {
				rt.Fatalf("VIOL[c09-client-ignores-seed]: connection %d (of %d made through one client factory) uses the length table %v, its bridge's seed denotes %v (history %v)", k, nb, live, cn.table, hist)
			}
			n := rapid.SampledFrom([]int{0, 1, 700, 1406, 1427, 1428, 3000}).Draw(rt, "size")
			data := vfCounterStream(0, cn.off, n)
			res, wn, id := cn.s.Ep.Write(data)
			hist = append(hist, fmt.Sprintf("write(conn%d,%d)", k, n))
			if res.Failed() {
				rt.Fatalf("VIOL[c09-write-panic]: Write(%d) on connection %d: %s", n, k, res)
			}
			if res.Err != nil || wn != n {
				rt.Fatalf("VIOL[c09-write-error]: Write(%d) = %d, %v", n, wn, res.Err)
			}
			total := 0
			wr, _, _ := cn.s.N.Snapshot()
			for _, r := range wr {
				if r.Side == cn.s.RealSide && r.Bracket == id {
					total += r.N
				}
			}
			p := 0
			for rem := n; rem > 0; rem -= maxPacketPayloadLength {
				kk := rem
				if kk > maxPacketPayloadLength {
					kk = maxPacketPayloadLength
				}
				p += headerLength + kk
			}
			okb := n == 0 && total == 0
			for _, v := range cn.table {
				for _, a := range vfAllowedPad(p, v) {
					if p+a == total {
						okb = true
					}
				}
			}
			if !okb {
				rt.Fatalf("VIOL[c09-burst-length]: connection %d of %d made through one client factory: Write(%d) put %d bytes on the wire (%d of frames carrying data); no value of ITS bridge's table %v explains the padding (history %v)", k, nb, n, total, p, cn.table, hist)
			}
			cn.s.Dec.Feed(cn.s.N.Take(cn.s.RealSide))
			frames, err := cn.s.Dec.All()
			var got []byte
			for _, f := range frames {
				got = append(got, f.Payload...)
			}
			if err != nil || !bytes.Equal(got, data) {
				rt.Fatalf("VIOL[c09-frames]: burst of Write(%d) on connection %d does not decode to the data written: %v", n, k, err)
			}
			cn.off += n
		}
		c.Case(ev.Hash("two-bridges", rk, fmt.Sprint(hist)), nt, []string{"two-bridges"}, func() any { return map[string]any{"unit": "two-bridges", "bridges": nb, "history": hist} })
	})
}

// ---- (c) paranoid mode terminates for every single-value table ---------------------------------

// vfSingleSeeds maps each value v of a one-entry length table to a seed that
// produces the table {v}; found by search (TestVerifC09FindSingleValueSeeds) and
// stored in /verif/corpus/c09_single_value_seeds.json; every entry is re-checked
// against the live code before use.
func vfSingleSeeds(t testing.TB) map[int][]byte {
	path := os.Getenv("VERIF_DIR") + "/corpus/c09_single_value_seeds.json"
	raw, err := os.ReadFile(path)
	if err != nil {
		t.Fatalf("INFRA: %v", err)
	}
	var m map[string]string
	if err := json.Unmarshal(raw, &m); err != nil {
		t.Fatalf("INFRA: %v", err)
	}
	out := map[int][]byte{}
	for k, v := range m {
		var n int
		fmt.Sscanf(k, "%d", &n)
		b := make([]byte, 24)
		for i := 0; i < 24; i++ {
			fmt.Sscanf(v[2*i:2*i+2], "%02x", &b[i])
		}
		out[n] = b
	}
	return out
}

// TestVerifC09FindSingleValueSeeds regenerates the seed file (run by hand with
// VERIF_GEN_SEEDS=<path>; not part of any tier).
func TestVerifC09FindSingleValueSeeds(t *testing.T) {
	path := os.Getenv("VERIF_GEN_SEEDS")
	if path == "" {
		t.Skip("set VERIF_GEN_SEEDS to regenerate")
	}
	found := map[string]string{}
	type hit struct {
		v int
		s []byte
	}
	ch := make(chan hit, 1024)
	var wg sync.WaitGroup
	workers := 16
	stop := make(chan struct{})
	for w := 0; w < workers; w++ {
		wg.Add(1)
		go func(w int) {
			defer wg.Done()
			for j := uint64(w); ; j += uint64(workers) {
				select {
				case <-stop:
					return
				default:
				}
				s := detrand.Bytes(0x51e00000000+j, 24)
				tb := vfSeedTable(s, false)
				if len(tb) == 1 {
					ch <- hit{tb[0], s}
				}
			}
		}(w)
	}
	for len(found) < vfSeg+1 {
		h := <-ch
		k := fmt.Sprint(h.v)
		if _, ok := found[k]; !ok {
			found[k] = fmt.Sprintf("%x", h.s)
		}
	}
	close(stop)
	go func() {
		for range ch {
		}
	}()
	wg.Wait()
	js, _ := json.MarshalIndent(found, "", " ")
	if err := os.WriteFile(path, js, 0o644); err != nil {
		t.Fatal(err)
	}
}

var (
	vfZeroIATOnce sync.Once
	vfZeroIATSeed []byte
)

// vfZeroDelayDist returns an IAT distribution whose only value is 0, so that
// paranoid-mode writes do not sleep (the delays are irrelevant to termination).
func vfZeroDelayDist() *probdist.WeightedDist {
	vfZeroIATOnce.Do(func() {
		for j := uint64(0); ; j++ {
			s := detrand.Bytes(0x1a7000000+j, 24)
			sd, _ := drbg.SeedFromBytes(s)
			tb := vfDistValues(probdist.New(sd, 0, maxIATDelay, false))
			if len(tb) == 1 && tb[0] == 0 {
				vfZeroIATSeed = s
				return
			}
		}
	})
	sd, _ := drbg.SeedFromBytes(vfZeroIATSeed)
	return probdist.New(sd, 0, maxIATDelay, false)
}

type vfParanoidCase struct {
	V    int `json:"table_value"`
	Size int `json:"write_size"`
}

func vfParanoidOne(seeds map[int][]byte, pc vfParanoidCase, stale *int64) string {
	seed, ok := seeds[pc.V]
	if !ok {
		return fmt.Sprintf("INFRA: no stored seed for table {%d}", pc.V)
	}
	if tb := vfSeedTable(seed, false); len(tb) != 1 || tb[0] != pc.V {
		*stale++
		return "" // the table derivation changed: stored seed is stale (counted, not judged)
	}
	vfSetBias(false)
	br := vfBridge{ID: refobfs4.NewIdentity(detrand.Bytes(0x77, 52)), Seed: seed, IAT: iatParanoid}
	s, err := vfRefSession(br, vfEnt(uint64(pc.V)*7+1), false, false)
	if s != nil && s.N != nil {
		defer s.N.Shutdown()
	}
	if err != nil {
		return "VIOL[c09-session]: " + err.Error()
	}
	oc := s.Ep.Conn().(*obfs4Conn)
	oc.iatDist = vfZeroDelayDist()
	data := vfCounterStream(1, 0, pc.Size)
	old := drive.WriteWatchdog
	drive.WriteWatchdog = 5 * time.Second
	res, wn, id := s.Ep.Write(data)
	drive.WriteWatchdog = old
	if res.TimedOut {
		w, _, _ := s.N.Snapshot()
		cnt := 0
		for _, r := range w {
			if r.Side == s.RealSide && r.Bracket == id {
				cnt++
			}
		}
		s.N.Shutdown()
		return fmt.Sprintf("VIOL[c09-write-never-returns]: iat-mode 2, length table {%d} (seed %x): Write(%d bytes) has not returned after 5 s without any sleeping and %d wire writes (%d bytes): it pads forever", pc.V, seed, pc.Size, cnt, s.N.Written(s.RealSide))
	}
	if res.Failed() {
		return fmt.Sprintf("VIOL[c09-write-panic]: iat-mode 2, table {%d}: Write(%d): %s", pc.V, pc.Size, res)
	}
	if res.Err != nil || wn != pc.Size {
		return fmt.Sprintf("VIOL[c09-write-error]: Write(%d) = %d, %v", pc.Size, wn, res.Err)
	}
	w, _, _ := s.N.Snapshot()
	want := pc.V
	if want == 0 {
		want = vfSeg
	}
	for _, r := range w {
		if r.Side == s.RealSide && r.Bracket == id && r.N != want {
			return fmt.Sprintf("VIOL[c09-paranoid-write-size]: iat-mode 2, table {%d}: a wire write of %d bytes", pc.V, r.N)
		}
	}
	s.Dec.Feed(s.N.Take(s.RealSide))
	frames, err := s.Dec.All()
	if err != nil || s.Dec.Buffered() != 0 {
		return fmt.Sprintf("VIOL[c09-frames]: table {%d}: burst does not decode as whole frames: %v", pc.V, err)
	}
	var got []byte
	for _, f := range frames {
		got = append(got, f.Payload...)
	}
	if !bytes.Equal(got, data) {
		return fmt.Sprintf("VIOL[c09-frames]: table {%d}: frames carry %d of %d payload bytes", pc.V, len(got), pc.Size)
	}
	return ""
}

func TestVerifC09ParanoidTermination(t *testing.T) {
	vfSetup(t)
	c := ev.For("C09")
	c.Rule("paranoid-termination: for every one-entry length table {v}, v = 0..1448 (each reached through the public factory from a stored seed that is re-checked against the live table derivation), a real server connection in iat-mode 2 (its delay distribution replaced in-package by an all-zero one so that nothing sleeps) performs Write of 1, 7 and 1427 bytes (quick: one of the three per v, rotating with the seed); oracle: Write returns within 5 s (it cannot be sleeping), every wire write is exactly v bytes (1448 for v = 0), the reference peer opens every frame and gets the payload; complete enumeration over v")
	seeds := vfSingleSeeds(t)
	if rc := os.Getenv("VERIF_REPLAY_CASE"); rc != "" {
		var pc vfParanoidCase
		if err := json.Unmarshal([]byte(rc), &pc); err != nil {
			t.Fatalf("bad replay case: %v", err)
		}
		var st int64
		if msg := vfParanoidOne(seeds, pc, &st); msg != "" {
			t.Fatalf("%s", msg)
		}
		return
	}
	shard, nshards := ev.IntEnv("VERIF_SHARD", 0), ev.IntEnv("VERIF_NSHARDS", 1)
	sizes := []int{1, 7, 1427}
	var count, stale int64
	for v := 0; v <= vfSeg; v++ {
		if v%nshards != shard {
			continue
		}
		for si, sz := range sizes {
			if !ev.Thorough() && (v+ev.IntEnv("VERIF_SEED", 1))%len(sizes) != si {
				continue
			}
			pc := vfParanoidCase{v, sz}
			if msg := vfParanoidOne(seeds, pc, &stale); msg != "" {
				js, _ := json.Marshal(pc)
				fmt.Printf("VERIF-REPLAY-CASE: %s\n", js)
				t.Fatalf("%s", msg)
			}
			count++
		}
	}
	c.Bulk(count, count-stale)
	c.Class("paranoid-termination-cases", count)
	if stale > 0 {
		c.Excluded("stored single-value seed no longer yields its table (regenerate corpus/c09_single_value_seeds.json)", stale)
	}
	c.Subspace("one-entry length tables {v}, v = 0..1448, iat-mode 2", count)
	c.Sample(ev.Hash("paranoid", shard), map[string]any{"unit": "paranoid-termination", "cases": count, "example": vfParanoidCase{49, 7}})
	if stale*2 > count {
		t.Fatalf("INFRA: most stored single-value seeds are stale")
	}
}

// FuzzVerifC09EndToEnd: the end-to-end shaping property under the native fuzzer (thorough).
func FuzzVerifC09EndToEnd(f *testing.F) {
	vfSetup(f)
	c := ev.For("C09")
	c.Rule("fuzz-end-to-end: the end-to-end property driven by the native coverage-guided fuzzer through rapid.MakeFuzz (thorough tier)")
	f.Fuzz(rapid.MakeFuzz(func(rt *rapid.T) { vfC09Case(rt, c) }))
}

// ---- (d) paranoid mode, exhaustive over (one-entry table value, write size) ---------------------

// vfLenSink is a net.Conn that only records the sizes of the writes it gets.
type vfLenSink struct {
	net.Conn
	lens  []int
	total int
}

func (s *vfLenSink) Write(b []byte) (int, error) {
	s.lens = append(s.lens, len(b))
	s.total += len(b)
	if len(s.lens) > 200000 {
		return 0, fmt.Errorf("verif: too many writes")
	}
	return len(b), nil
}

type vfParanoidPair struct {
	V    int `json:"table_value"`
	Size int `json:"write_size"`
}

func vfParanoidPairRun(seeds map[int][]byte, pp vfParanoidPair, zero *probdist.WeightedDist, key []byte) string {
	sd, _ := drbg.SeedFromBytes(seeds[pp.V])
	dist := probdist.New(sd, 0, framing.MaximumSegmentLength, false)
	if tb := vfDistValues(dist); len(tb) != 1 || tb[0] != pp.V {
		return "stale"
	}
	sink := &vfLenSink{}
	conn := &obfs4Conn{Conn: sink, iatMode: iatParanoid, lenDist: dist, iatDist: zero, encoder: framing.NewEncoder(key)}
	data := make([]byte, pp.Size)
	var n int
	var err error
	res := drive.Call(10*time.Second, func() error {
		n, err = conn.Write(data)
		return err
	})
	if res.TimedOut {
		return fmt.Sprintf("VIOL[c09-write-never-returns]: iat-mode 2, length table {%d}: Write(%d bytes) has not returned after 10 s without sleeping (%d wire writes so far)", pp.V, pp.Size, len(sink.lens))
	}
	if res.Panic != nil {
		return fmt.Sprintf("VIOL[c09-write-panic]: iat-mode 2, length table {%d}: Write(%d bytes) panicked: %v", pp.V, pp.Size, res.Panic)
	}
	if err != nil || n != pp.Size {
		return fmt.Sprintf("VIOL[c09-write-error]: iat-mode 2, length table {%d}: Write(%d) = %d, %v", pp.V, pp.Size, n, err)
	}
	want := pp.V
	if want == 0 {
		want = vfSeg
	}
	for _, l := range sink.lens {
		if l != want {
			return fmt.Sprintf("VIOL[c09-paranoid-write-size]: iat-mode 2, length table {%d}: Write(%d) produced a wire write of %d bytes (all writes: %v)", pp.V, pp.Size, l, sink.lens)
		}
	}
	if pp.Size > 0 && sink.total < headerLength+pp.Size {
		return fmt.Sprintf("VIOL[c09-paranoid-short]: iat-mode 2, length table {%d}: Write(%d) put only %d bytes on the wire", pp.V, pp.Size, sink.total)
	}
	if sink.total > pp.Size+headerLength+4*vfSeg+want*30 {
		return fmt.Sprintf("VIOL[c09-unbounded-padding]: iat-mode 2, length table {%d}: Write(%d) put %d bytes on the wire", pp.V, pp.Size, sink.total)
	}
	return ""
}

func TestVerifC09ParanoidExhaustive(t *testing.T) {
	vfSetup(t)
	c := ev.For("C09")
	c.Rule("paranoid-exhaustive: in-package connection in iat-mode 2 over a recording sink, its length distribution a one-entry table {v} (v = 0..1448, built through probdist.New from the stored seeds) and an all-zero delay distribution; one Write of n bytes for every n = 0..1427 (thorough: all 1449 x 1428 pairs; quick: every 9th n, offset rotating with the seed), which makes every reachable buffered tail meet every write length; oracle: Write returns without panic or error, every wire write is exactly v bytes (1448 for v = 0), at least the payload frame and a bounded amount are written")
	seeds := vfSingleSeeds(t)
	zero := vfZeroDelayDist()
	key := detrand.Bytes(0xc09e, framing.KeyLength)
	if rc := os.Getenv("VERIF_REPLAY_CASE"); rc != "" {
		var pp vfParanoidPair
		if err := json.Unmarshal([]byte(rc), &pp); err != nil {
			t.Fatalf("bad replay case: %v", err)
		}
		if msg := vfParanoidPairRun(seeds, pp, zero, key); msg != "" && msg != "stale" {
			t.Fatalf("%s", msg)
		}
		return
	}
	shard, nshards := ev.IntEnv("VERIF_SHARD", 0), ev.IntEnv("VERIF_NSHARDS", 1)
	stride := 1
	if !ev.Thorough() {
		stride = 9
	}
	var count, stale int64
	for v := 0; v <= vfSeg; v++ {
		if v%nshards != shard {
			continue
		}
		start := (v + ev.IntEnv("VERIF_SEED", 1)) % stride
		for n := start; n <= maxPacketPayloadLength; n += stride {
			pp := vfParanoidPair{v, n}
			msg := vfParanoidPairRun(seeds, pp, zero, key)
			if msg == "stale" {
				stale++
				break
			}
			if msg != "" {
				js, _ := json.Marshal(pp)
				fmt.Printf("VERIF-REPLAY-CASE: %s\n", js)
				t.Fatalf("%s", msg)
			}
			count++
		}
	}
	c.Bulk(count, count)
	c.Class("paranoid-exhaustive-cases", count)
	if stale > 0 {
		c.Excluded("stored single-value seed no longer yields its table", stale)
	}
	if ev.Thorough() {
		c.Subspace("iat-mode 2: one-entry table value 0..1448 x write size 0..1427", count)
	}
	c.Sample(ev.Hash("paranoid-ex", shard), map[string]any{"unit": "paranoid-exhaustive", "cases": count, "stride": stride, "example": vfParanoidPair{1431, 1391}})
}
