//go:build verif

package obfs4

// C18 (a): histories of starts on one state directory against a model of the
// persisted identity.

import (
	"encoding/hex"
	"fmt"
	"os"
	"strings"
	"testing"

	"pgregory.net/rapid"

	"gitlab.com/yawning/obfs4.git/internal/verifkit/detrand"
	"gitlab.com/yawning/obfs4.git/internal/verifkit/ev"
)

// model states
const (
	vf18None    = iota // nothing was ever attempted on the directory
	vf18Unknown        // only failed starts so far: an identity may or may not have been persisted
	vf18Known          // an identity has been presented by a successful start
)

type vf18Action struct {
	Kind     string // plain | iat | explicit | invalid
	Args     vf18Args
	Explicit *vf18Ident // complete, valid credentials given (explicit, or invalid because of the iat value only)
	IATGiven int        // -1: none
	Why      string     // for invalid: what is wrong
}

func vf18Hex(rt *rapid.T, b []byte, label string) string {
	s := hex.EncodeToString(b)
	if rapid.IntRange(0, 4).Draw(rt, label+"-upper") == 0 {
		s = strings.ToUpper(s)
	}
	return s
}

func vf18DrawIdent(rt *rapid.T, label string) vf18Ident {
	k := uint64(rapid.IntRange(0, 4095).Draw(rt, label+"-key"))
	var id vf18Ident
	b := detrand.Bytes(k, 20+32+24)
	copy(id.NodeID[:], b)
	copy(id.Priv[:], b[20:])
	copy(id.Seed[:], b[52:])
	switch rapid.IntRange(0, 9).Draw(rt, label+"-edge") {
	case 0:
		id.NodeID = [20]byte{}
	case 1:
		for i := range id.Priv {
			id.Priv[i] = 0xff
		}
	}
	return id
}

var (
	vf18BadIATRange     = []string{"3", "-1", "7", "100", "99999999999999999999"}
	vf18BadIATMalformed = []string{"abc", "", "1.0", "2x", " 1", "0x1", "one"}
)

func vf18DrawExplicitArgs(rt *rapid.T, label string) (vf18Args, vf18Ident) {
	id := vf18DrawIdent(rt, label)
	seed := append([]byte(nil), id.Seed[:]...)
	if extra := rapid.SampledFrom([]int{0, 0, 0, 1, 8, 16}).Draw(rt, label+"-seed-extra"); extra > 0 {
		seed = append(seed, detrand.Bytes(uint64(extra), extra)...) // longer seeds are truncated to 24 bytes
	}
	a := vf18Args{
		nodeIDArg:     vf18Hex(rt, id.NodeID[:], label+"-id"),
		privateKeyArg: vf18Hex(rt, id.Priv[:], label+"-key"),
		seedArg:       vf18Hex(rt, seed, label+"-seed"),
	}
	return a, id
}

func vf18DrawAction(rt *rapid.T) vf18Action {
	switch k := rapid.IntRange(0, 99).Draw(rt, "kind"); {
	case k < 32:
		return vf18Action{Kind: "plain", Args: vf18Args{}, IATGiven: -1}
	case k < 47:
		m := rapid.IntRange(0, 2).Draw(rt, "iat")
		return vf18Action{Kind: "iat", Args: vf18Args{iatArg: fmt.Sprint(m)}, IATGiven: m}
	case k < 62:
		a, id := vf18DrawExplicitArgs(rt, "x")
		act := vf18Action{Kind: "explicit", Args: a, Explicit: &id, IATGiven: -1}
		if rapid.Bool().Draw(rt, "x-with-iat") {
			act.IATGiven = rapid.IntRange(0, 2).Draw(rt, "x-iat")
			a[iatArg] = fmt.Sprint(act.IATGiven)
		}
		return act
	}
	// invalid arguments
	act := vf18Action{Kind: "invalid", IATGiven: -1}
	switch rapid.IntRange(0, 6).Draw(rt, "bad") {
	case 0:
		v := rapid.SampledFrom(vf18BadIATRange).Draw(rt, "bad-iat")
		act.Args, act.Why = vf18Args{iatArg: v}, "iat-mode out of range"
	case 1:
		v := rapid.SampledFrom(vf18BadIATMalformed).Draw(rt, "bad-iat")
		act.Args, act.Why = vf18Args{iatArg: v}, "iat-mode malformed"
	case 2:
		a, _ := vf18DrawExplicitArgs(rt, "b")
		mask := rapid.IntRange(1, 6).Draw(rt, "keep-mask") // proper non-empty subset of the three
		for bit, k := range []string{nodeIDArg, privateKeyArg, seedArg} {
			if mask&(1<<bit) == 0 {
				delete(a, k)
			}
		}
		act.Args, act.Why = a, "explicit credentials incomplete"
	case 3:
		a, _ := vf18DrawExplicitArgs(rt, "b")
		field := rapid.SampledFrom([]string{nodeIDArg, privateKeyArg, seedArg}).Draw(rt, "field")
		how := rapid.SampledFrom([]string{"short", "long", "nonhex", "empty", "odd"}).Draw(rt, "how")
		if field == seedArg && how == "long" {
			how = "short" // longer seeds are legal
		}
		v := a[field]
		if field == seedArg {
			v = v[:48] // exactly 24 bytes, so that shortening makes it invalid
		}
		switch how {
		case "short":
			v = v[:len(v)-2]
		case "long":
			v += "00"
		case "nonhex":
			v = "zz" + v[2:]
		case "empty":
			v = ""
		case "odd":
			v = v[:len(v)-1]
		}
		a[field] = v
		act.Args, act.Why = a, fmt.Sprintf("explicit %s %s", field, how)
	default:
		// complete, valid credentials but an unusable iat-mode
		a, id := vf18DrawExplicitArgs(rt, "b")
		v := rapid.SampledFrom(append(append([]string(nil), vf18BadIATRange...), vf18BadIATMalformed...)).Draw(rt, "bad-iat")
		a[iatArg] = v
		act.Args, act.Explicit, act.Why = a, &id, "valid explicit credentials, bad iat-mode"
	}
	return act
}

func TestVerifC18History(t *testing.T) {
	e := ev.For("C18")
	e.Rule("history: 1-12 starts on one temp state directory through Transport.ServerFactory: plain, iat-mode override 0..2, explicit node-id/private-key/drbg-seed (hex in either case, seed 24-40 bytes) with or without iat-mode, invalid arguments (iat-mode out of range / malformed, incomplete or malformed explicit credentials, valid credentials with a bad iat-mode); model = persisted identity (none / unknown after a failed first start / known); after every failed start on a known identity a plain start on a copy of the directory must still present it; a final plain start closes every history; non-trivial = a failed start after an identity was established, or an override/explicit start followed by a later plain start; fingerprint = argument lists")
	e.Assume("x/crypto curve25519.X25519 and encoding/base64 are trusted as the reference for cert = base64(node-id | X25519-base(private-key))")
	e.Floor("history-failed-start-on-known-identity/history", 0.30)
	e.Floor("history-override-then-plain/history", 0.20)
	rapid.Check(t, func(rt *rapid.T) {
		detrand.Seed(uint64(rapid.IntRange(0, 1<<20).Draw(rt, "rng")))
		defer detrand.Real()
		dir := vf18TempDir("vf18-hist-*")
		defer os.RemoveAll(dir)

		// every object handed out during the history stays alive and is re-verified
		// after every further call
		reg := &vf18Registry{}
		vf18Keep = reg
		defer func() { vf18Keep = nil }()

		state := vf18None
		var P vf18Ident
		var hist []string
		failedOnKnown, overrideThenPlain, pendingOverride, explicitReplaced := false, false, false, false
		tolerated := 0
		fail := func(format string, a ...any) {
			rt.Fatalf("%s\nhistory: %s", fmt.Sprintf(format, a...), strings.Join(hist, " ; "))
		}

		n := rapid.IntRange(1, 12).Draw(rt, "n")
		for i := 0; i <= n; i++ {
			var act vf18Action
			if i == n {
				act = vf18Action{Kind: "plain", Args: vf18Args{}, IATGiven: -1} // closing plain start
			} else {
				act = vf18DrawAction(rt)
			}
			if i > 0 {
				if msg := reg.verify(hist[len(hist)-1]); msg != "" {
					fail("%s", msg)
				}
			}
			hist = append(hist, act.Args.String())
			sf, err, pan := vf18Start(dir, act.Args)
			if pan != "" {
				fail("VIOL[c18-panic]: %s: %s", act.Args, pan)
			}
			if err != nil {
				hist[len(hist)-1] += fmt.Sprintf(" -> error %q", err)
				switch {
				case act.Kind == "invalid":
					// expected
				case state == vf18Known:
					fail("VIOL[c18-restart-failed]: a valid start on a directory holding identity %v fails: %v", P, err)
				case state == vf18None:
					fail("VIOL[c18-fresh-start-failed]: a valid start on an empty directory fails: %v", err)
				default:
					tolerated++ // after failed first starts nothing is claimed
				}
				if state == vf18None {
					state = vf18Unknown
				}
				if state == vf18Known {
					failedOnKnown = true
					// a failed start never changes an established identity: look at a copy
					probe := vf18TempDir("vf18-probe-*")
					if cerr := vf18CopyDir(dir, probe); cerr != nil {
						os.RemoveAll(probe)
						vf18Inconclusive("copy: %v", cerr)
					}
					psf, perr, ppan := vf18Start(probe, vf18Args{})
					if ppan != "" {
						os.RemoveAll(probe)
						fail("VIOL[c18-panic]: plain start after the failed start: %s", ppan)
					}
					if perr != nil {
						os.RemoveAll(probe)
						fail("VIOL[c18-failed-start-changed-identity]: after the failed %s the directory no longer starts (identity was %v): %v", act.Args, P, perr)
					}
					got, msg := vf18CheckStart(probe, psf)
					os.RemoveAll(probe)
					if msg != "" {
						fail("%s (plain start after failed %s)", msg, act.Args)
					}
					if got != P {
						fail("VIOL[c18-failed-start-changed-identity]: after the failed %s a plain start presents %v, established identity was %v", act.Args, got, P)
					}
				}
				continue
			}
			got, msg := vf18CheckStart(dir, sf)
			hist[len(hist)-1] += " -> " + got.String()
			if msg != "" {
				fail("%s", msg)
			}
			// expectations from the model
			switch act.Kind {
			case "plain":
				if state == vf18Known && got != P {
					fail("VIOL[c18-identity-changed]: plain start presents %v, persisted identity is %v", got, P)
				}
				if pendingOverride {
					overrideThenPlain = true
				}
			case "iat":
				if state == vf18Known && !got.sameKeys(P) {
					fail("VIOL[c18-identity-changed]: start with iat-mode override presents %v, persisted identity is %v", got, P)
				}
				if got.IAT != act.IATGiven {
					fail("VIOL[c18-iat-override]: start(iat-mode=%d) runs iat-mode %d", act.IATGiven, got.IAT)
				}
				pendingOverride = true
			case "explicit":
				if !got.sameKeys(*act.Explicit) {
					fail("VIOL[c18-explicit]: start with explicit credentials %v presents %v", *act.Explicit, got)
				}
				switch {
				case act.IATGiven >= 0 && got.IAT != act.IATGiven:
					fail("VIOL[c18-iat-override]: explicit start with iat-mode=%d runs iat-mode %d", act.IATGiven, got.IAT)
				case act.IATGiven < 0 && got.IAT != 0 && !(state == vf18Known && got.IAT == P.IAT):
					fail("VIOL[c18-explicit]: explicit start without iat-mode runs iat-mode %d (neither 0 nor the persisted mode)", got.IAT)
				}
				if state == vf18Known && !got.sameKeys(P) {
					explicitReplaced = true
				}
				pendingOverride = true
			case "invalid":
				// Not demanded to fail by the property; if it starts, it must not have
				// touched the keys unless complete credentials were supplied.
				if act.Explicit != nil {
					if !got.sameKeys(*act.Explicit) && !(state == vf18Known && got.sameKeys(P)) {
						fail("VIOL[c18-explicit]: start with %s presents %v", act.Why, got)
					}
				} else if state == vf18Known && !got.sameKeys(P) {
					fail("VIOL[c18-identity-changed]: start with %s replaced the identity %v by %v", act.Why, P, got)
				}
			}
			P, state = got, vf18Known
		}
		if msg := reg.verify(hist[len(hist)-1]); msg != "" {
			fail("%s", msg)
		}
		vf18Keep = nil
		detrand.Real()
		cls := []string{"history"}
		if reg.reverified > 0 {
			cls = append(cls, "history-earlier-parse-result-reverified-after-a-different-cert")
		}
		if failedOnKnown {
			cls = append(cls, "history-failed-start-on-known-identity")
		}
		if overrideThenPlain {
			cls = append(cls, "history-override-then-plain")
		}
		if explicitReplaced {
			cls = append(cls, "history-explicit-replaces-identity")
		}
		if tolerated > 0 {
			cls = append(cls, "history-valid-start-failed-after-failed-first-start(tolerated)")
		}
		h := append([]string(nil), hist...)
		e.Case(ev.Hash(strings.Join(hist, ";")), failedOnKnown || overrideThenPlain, cls, func() any {
			if len(h) > 14 {
				h = h[:14]
			}
			return map[string]any{"part": "history", "starts": h}
		})
	})
}
