//go:build verif

package obfs4

// C05 — an endpoint never delivers bytes its peer did not send, however the
// ciphertext is altered after the handshake.

import (
	"bytes"
	"encoding/binary"
	"errors"
	"fmt"
	"io"
	"os"
	"strconv"
	"testing"

	"pgregory.net/rapid"

	"gitlab.com/yawning/obfs4.git/internal/verifkit/detrand"
	"gitlab.com/yawning/obfs4.git/internal/verifkit/drive"
	"gitlab.com/yawning/obfs4.git/internal/verifkit/ev"
	"gitlab.com/yawning/obfs4.git/internal/verifkit/refobfs4"
	"gitlab.com/yawning/obfs4.git/internal/verifkit/wire"
)

// vfSurgery is one modification of a frame sequence.
type vfSurgery struct {
	Kind  string `json:"kind"` // flip, insert, delete, dropframe, dupframe, swap, replay, truncate
	Frame int    `json:"frame"`
	Other int    `json:"other"`
	Off   int    `json:"off"` // absolute offset in the original stream (insert/delete/truncate) or bit index inside the frame (flip)
	Len   int    `json:"len"`
}

func (s vfSurgery) String() string {
	return fmt.Sprintf("%s(frame=%d other=%d off=%d len=%d)", s.Kind, s.Frame, s.Other, s.Off, s.Len)
}

// vfApplySurgery returns the tampered stream and the index of the first frame
// that is no longer intact (frames with a smaller index arrive unmodified, in
// order, before any modified byte).
func vfApplySurgery(frames [][]byte, op vfSurgery, filler []byte) (stream []byte, damaged int, truncation bool) {
	starts := make([]int, len(frames)+1)
	for i, f := range frames {
		starts[i+1] = starts[i] + len(f)
	}
	frameAt := func(off int) int {
		for i := range frames {
			if off < starts[i+1] {
				return i
			}
		}
		return len(frames)
	}
	orig := bytes.Join(frames, nil)
	switch op.Kind {
	case "flip":
		out := append([]byte(nil), orig...)
		out[starts[op.Frame]+op.Off/8] ^= 1 << uint(op.Off%8)
		return out, op.Frame, false
	case "insert":
		out := append([]byte(nil), orig[:op.Off]...)
		out = append(out, filler[:op.Len]...)
		out = append(out, orig[op.Off:]...)
		return out, frameAt(op.Off), false
	case "delete":
		out := append([]byte(nil), orig[:op.Off]...)
		out = append(out, orig[op.Off+op.Len:]...)
		return out, frameAt(op.Off), false
	case "dropframe":
		var out []byte
		for i, f := range frames {
			if i != op.Frame {
				out = append(out, f...)
			}
		}
		return out, op.Frame, false
	case "dupframe":
		var out []byte
		for i, f := range frames {
			out = append(out, f...)
			if i == op.Frame {
				out = append(out, f...)
			}
		}
		return out, op.Frame + 1, false
	case "swap":
		var out []byte
		for i := 0; i < len(frames); i++ {
			switch i {
			case op.Frame:
				out = append(out, frames[i+1]...)
			case op.Frame + 1:
				out = append(out, frames[i-1]...)
			default:
				out = append(out, frames[i]...)
			}
		}
		return out, op.Frame, false
	case "replay":
		var out []byte
		for i, f := range frames {
			out = append(out, f...)
			if i == op.Frame {
				out = append(out, frames[op.Other]...)
			}
		}
		return out, op.Frame + 1, false
	case "splice-body":
		// frame op.Frame keeps its (masked) length field but gets the sealed body of
		// the earlier frame op.Other: a replay that the length obfuscation cannot see
		var out []byte
		for i, f := range frames {
			if i == op.Frame {
				out = append(out, f[:2]...)
				out = append(out, frames[op.Other][2:]...)
			} else {
				out = append(out, f...)
			}
		}
		return out, op.Frame, false
	case "swap-length-fields":
		var out []byte
		for i, f := range frames {
			switch i {
			case op.Frame:
				out = append(append(out, frames[op.Frame+1][:2]...), f[2:]...)
			case op.Frame + 1:
				out = append(append(out, frames[op.Frame][:2]...), f[2:]...)
			default:
				out = append(out, f...)
			}
		}
		return out, op.Frame, false
	case "relength":
		// The length field is masked by XOR, so an attacker who knows (or guesses) a
		// frame's true length L can set the decoded length to any value v: XOR the
		// field with L^v and cut / extend the body to v bytes.
		var out []byte
		for i, f := range frames {
			if i != op.Frame {
				out = append(out, f...)
				continue
			}
			l := len(f) - 2
			v := op.Len
			x := uint16(l) ^ uint16(v)
			out = append(out, f[0]^byte(x>>8), f[1]^byte(x))
			if v <= l {
				out = append(out, f[2:2+v]...)
			} else {
				out = append(out, f[2:]...)
				for len(filler) < v-l {
					filler = append(filler, filler...)
				}
				out = append(out, filler[:v-l]...)
			}
		}
		return out, op.Frame, false
	case "truncate":
		return append([]byte(nil), orig[:op.Off]...), frameAt(op.Off), true
	}
	panic("unknown surgery " + op.Kind)
}

// vfC05Run runs one tampering case against a real endpoint fed by the reference
// peer and returns "" or a violation.  specs are the frames subject to surgery;
// three full frames of genuine data are appended behind them.
func vfC05Run(br vfBridge, entKey uint64, victimIsClient bool, specs []vfFrameSpec, op vfSurgery, chunks []int, readBuf int) (string, bool) {
	ent := vfEnt(entKey)
	s, err := vfRefSession(br, ent, victimIsClient, false)
	if s != nil && s.N != nil {
		defer s.N.Shutdown()
	}
	if err != nil {
		return "INFRA: reference session: " + err.Error(), false
	}
	// an application may call Read again after an error: whatever those calls
	// hand over is judged by the same prefix oracle
	s.Ep.KeepReading(3)
	dir := byte(1)
	if !victimIsClient {
		dir = 0
	}
	var frames [][]byte
	var payloadBefore []int // payload bytes carried by frames < i
	total := 0
	off := 0
	all := append(append([]vfFrameSpec(nil), specs...), vfFrameSpec{0, 1427, 0}, vfFrameSpec{0, 1427, 0}, vfFrameSpec{0, 1427, 0})
	for _, f := range all {
		payloadBefore = append(payloadBefore, total)
		pl := vfCounterStream(dir, off, f.Payload)
		if f.Typ == refobfs4.PktPayload {
			off += f.Payload
			total += f.Payload
		} else if f.Typ == refobfs4.PktSeed {
			pl = ent(24)
		}
		frames = append(frames, s.Enc.Frame(f.Typ, pl, f.Pad))
	}
	payloadBefore = append(payloadBefore, total)
	stream, damaged, truncation := vfApplySurgery(frames, op, ent(64))
	orig := bytes.Join(frames, nil)
	if bytes.Equal(stream, orig) {
		return "", false // the operation did not change the stream
	}
	// The first damaged frame is the one that holds the first byte at which the
	// tampered stream differs from the original (an inserted byte may equal the
	// byte it displaces, a deleted byte the one that follows it: the damage then
	// starts later than the position the operation names).
	{
		l := 0
		for l < len(stream) && l < len(orig) && stream[l] == orig[l] {
			l++
		}
		start, d := 0, len(frames)
		for i, f := range frames {
			if l < start+len(f) {
				d = i
				break
			}
			start += len(f)
		}
		if d > damaged {
			damaged = d
		}
	}
	bound := payloadBefore[damaged]
	s.Ep.SetBuf(readBuf)
	s.N.Inject(s.RefSide, stream)
	for _, c := range chunks {
		if s.N.Pending(s.RefSide) == 0 {
			break
		}
		s.N.Release(s.RefSide, c)
		if err := s.N.WaitQuiescent(s.RealSide); err != nil {
			return "VIOL[c05-wedge]: " + err.Error(), true
		}
		if msg := vfC05Prefix(s, dir, total, bound); msg != "" {
			return msg, true
		}
	}
	s.N.ReleaseAll(s.RefSide)
	if err := s.N.WaitQuiescent(s.RealSide); err != nil {
		return "VIOL[c05-wedge]: " + err.Error(), true
	}
	if msg := vfC05Prefix(s, dir, total, bound); msg != "" {
		return msg, true
	}
	if !truncation {
		// detection must not need the connection to end
		rerr := s.Ep.ReadErr()
		if rerr == nil {
			return fmt.Sprintf("VIOL[c05-undetected]: the whole tampered stream (%d bytes, %d of them genuine frames behind the damage) has been read and Read has not reported an error; delivered %d bytes", len(stream), 3*1448, s.Ep.GotLen()), true
		}
		if errors.Is(rerr, io.EOF) {
			return "VIOL[c05-eof-instead-of-error]: Read reported io.EOF for a damaged stream", true
		}
	}
	s.N.EOF(s.RefSide)
	if err := s.N.WaitQuiescent(s.RealSide); err != nil {
		return "VIOL[c05-wedge]: " + err.Error(), true
	}
	if msg := vfC05Prefix(s, dir, total, bound); msg != "" {
		return msg, true
	}
	if s.Ep.ReadErr() == nil {
		return "VIOL[c05-no-error-at-eof]: Read did not return after the stream ended", true
	}
	vfCloseTwice(s.Ep.Conn())
	return "", true
}

func vfC05Prefix(s *vfRefSess, dir byte, total, bound int) string {
	if pv, st := s.Ep.Panic(); pv != nil {
		return fmt.Sprintf("VIOL[c05-panic]: victim panicked: %v\n%s", pv, st)
	}
	got := s.Ep.Got()
	want := vfCounterStream(dir, 0, total)
	if len(got) > len(want) || !bytes.Equal(got, want[:len(got)]) {
		return fmt.Sprintf("VIOL[c05-not-a-prefix]: victim delivered %d bytes that are not a prefix of what the peer sent", len(got))
	}
	// "at most the intact data that preceded it" bounds what is handed over until
	// the error is reported.  Reads made after the error are only bound by the
	// prefix property: when the damage happens to have the length of a frame
	// (e.g. 20 bytes inserted behind the length field of a 20-byte box) the
	// decoder fails on it once and then opens the genuine frames again.
	_, after := s.Ep.AfterErr()
	if len(got)-after > bound {
		return fmt.Sprintf("VIOL[c05-delivered-past-damage]: victim delivered %d bytes before it reported an error, but only %d bytes were carried by frames that arrived intact before the first damaged frame", len(got)-after, bound)
	}
	return ""
}

func vfGenSurgery(rt *rapid.T, lens []int) vfSurgery {
	m := len(lens)
	total := 0
	for _, l := range lens {
		total += l
	}
	kinds := []string{"flip", "flip", "flip", "insert", "delete", "dropframe", "dupframe", "swap", "replay", "truncate", "splice-body", "splice-body", "swap-length-fields", "relength", "relength"}
	k := rapid.SampledFrom(kinds).Draw(rt, "surgery")
	f := rapid.IntRange(0, m-1).Draw(rt, "frame")
	switch k {
	case "splice-body":
		if m < 2 {
			return vfSurgery{Kind: "dropframe", Frame: f}
		}
		f = rapid.IntRange(1, m-1).Draw(rt, "spliceAt")
		// prefer an earlier frame of the same wire length (the length field then fits)
		var same []int
		for e := 0; e < f; e++ {
			if lens[e] == lens[f] {
				same = append(same, e)
			}
		}
		if len(same) > 0 && rapid.IntRange(0, 3).Draw(rt, "spliceSameLen") > 0 {
			return vfSurgery{Kind: k, Frame: f, Other: same[rapid.IntRange(0, len(same)-1).Draw(rt, "spliceFrom")]}
		}
		return vfSurgery{Kind: k, Frame: f, Other: rapid.IntRange(0, f-1).Draw(rt, "spliceFromAny")}
	case "relength":
		l := lens[f] - 2
		v := rapid.SampledFrom([]int{16, 16, 17, 18, 19, 20, l - 1, l + 1, 1446}).Draw(rt, "newLength")
		if rapid.IntRange(0, 3).Draw(rt, "newLengthFree") == 0 {
			v = rapid.IntRange(16, 1446).Draw(rt, "newLengthAny")
		}
		if v == l || v < 16 {
			v = 16
			if l == 16 {
				v = 17
			}
		}
		return vfSurgery{Kind: k, Frame: f, Len: v}
	case "swap-length-fields":
		if m < 2 {
			return vfSurgery{Kind: "dropframe", Frame: f}
		}
		return vfSurgery{Kind: k, Frame: rapid.IntRange(0, m-2).Draw(rt, "swapLenAt")}
	case "flip":
		var bit int
		switch rapid.IntRange(0, 3).Draw(rt, "flipRegion") {
		case 0:
			bit = rapid.IntRange(0, 15).Draw(rt, "lengthBit")
		case 1:
			bit = 16 + rapid.IntRange(0, 127).Draw(rt, "tagBit")
		default:
			bit = rapid.IntRange(0, lens[f]*8-1).Draw(rt, "anyBit")
		}
		return vfSurgery{Kind: k, Frame: f, Off: bit}
	case "insert":
		return vfSurgery{Kind: k, Off: rapid.IntRange(0, total-1).Draw(rt, "at"), Len: rapid.IntRange(1, 64).Draw(rt, "n")}
	case "delete":
		o := rapid.IntRange(0, total-1).Draw(rt, "at")
		return vfSurgery{Kind: k, Off: o, Len: rapid.IntRange(1, vfMin(64, total-o)).Draw(rt, "n")}
	case "swap":
		if m < 2 {
			return vfSurgery{Kind: "dropframe", Frame: f}
		}
		return vfSurgery{Kind: k, Frame: rapid.IntRange(0, m-2).Draw(rt, "swapAt")}
	case "replay":
		return vfSurgery{Kind: k, Frame: f, Other: rapid.IntRange(0, f).Draw(rt, "earlier")}
	case "truncate":
		return vfSurgery{Kind: k, Off: rapid.IntRange(0, total-1).Draw(rt, "at")}
	}
	return vfSurgery{Kind: k, Frame: f}
}

func vfSpecLens(specs []vfFrameSpec) []int {
	out := make([]int, len(specs))
	for i, s := range specs {
		out[i] = refobfs4.HeaderLen + s.Payload + s.Pad
	}
	return out
}

func TestVerifC05Surgery(t *testing.T) {
	vfSetup(t)
	c := ev.For("C05")
	c.Rule("surgery: the real client or server (victim) reads a stream produced by the reference peer: 1-7 generated frames (payload 0/1/1427/random, padding, unknown types, seed packets) followed by three genuine full frames; one surgery op in {flip one bit (length field, tag, body), insert 1-64 bytes, delete 1-64 bytes, drop / duplicate / swap whole frames, replay an earlier frame, splice the sealed body of an earlier (preferably equally long) frame behind a later frame's length field, swap two length fields, set a frame's decoded length to a chosen value (minimum 16, 17..20, L+-1, maximum, any) through the XOR-malleable length field with the body cut / extended to match, truncate}; the tampered stream is released in generated segments without EOF, reader buffer size generated; oracle: delivered bytes are always a prefix of the peer's payload and never exceed the payload of the frames that arrived intact before the first damaged frame; for every op but truncation Read has reported a non-EOF error by the time everything is read; no panic; non-trivial = at least one intact payload frame before and one frame after the damage; fingerprint = frames, op, chunk plan; the victim application calls Read three more times after the first error, and what those calls deliver is judged by the same oracles")
	c.Assume("Poly1305 forgery probability is negligible")
	c.Floor("victim-client", 0.3)
	c.Floor("victim-server", 0.3)
	rapid.Check(t, func(rt *rapid.T) {
		rk := rapid.Uint64().Draw(rt, "randKey")
		defer vfRandSeedKey(rk)()
		br, _ := vfGenBridge(rt, []int{0})
		victimIsClient := rapid.Bool().Draw(rt, "victimIsClient")
		specs := vfGenFrames(rt, "f")
		if len(specs) == 0 {
			specs = []vfFrameSpec{{0, 10, 0}}
		}
		op := vfGenSurgery(rt, vfSpecLens(specs))
		var chunks []int
		for i, k := 0, rapid.IntRange(0, 6).Draw(rt, "chunks"); i < k; i++ {
			chunks = append(chunks, rapid.SampledFrom([]int{1, 2, 21, 22, 100, 1447, 1448, 1449, 3000}).Draw(rt, "chunk"))
		}
		readBuf := rapid.SampledFrom([]int{1, 7, 1427, 65536}).Draw(rt, "readBuf")
		msg, ran := vfC05Run(br, rapid.Uint64().Draw(rt, "refEntropy"), victimIsClient, specs, op, chunks, readBuf)
		if msg != "" {
			rt.Fatalf("%s\nvictimIsClient=%v frames=%v op=%s chunks=%v readBuf=%d", msg, victimIsClient, specs, op, chunks, readBuf)
		}
		if !ran {
			rt.Skip("surgery did not change the stream")
		}
		// non-trivial: an intact payload frame before, and a frame after the damage
		_, damaged, _ := vfApplySurgery(vfDummyFrames(specs), op, make([]byte, 64))
		before := false
		for i := 0; i < damaged && i < len(specs); i++ {
			if specs[i].Typ == 0 && specs[i].Payload > 0 {
				before = true
			}
		}
		cls := []string{"op-" + op.Kind, map[bool]string{true: "victim-client", false: "victim-server"}[victimIsClient]}
		c.Case(ev.Hash(fmt.Sprint(specs), op.String(), fmt.Sprint(chunks), victimIsClient, readBuf), before, cls, func() any {
			return map[string]any{"victim_is_client": victimIsClient, "frames": specs, "op": op.String(), "chunks": chunks, "read_buf": readBuf}
		})
	})
	_ = detrand.Used
}

// vfC05LongRun: a session of n equally long frames from the reference peer in which frame `at` carries the
// sealed body of frame `from` behind its own length field.  The frame counter is part of every nonce, so a body
// only opens at its own position, however far apart the two positions are (256, 512, 65536: the distances
// at which a counter that loses a carry repeats).  The intact frames before the spliced one are released
// first: they are what an honest peer sent, so all of them are delivered and no error is reported yet.
func vfC05LongRun(br vfBridge, entKey uint64, victimIsClient bool, n, payload, from, at, readBuf int) string {
	ent := vfEnt(entKey)
	s, err := vfRefSession(br, ent, victimIsClient, false)
	if s != nil && s.N != nil {
		defer s.N.Shutdown()
	}
	if err != nil {
		return "INFRA: reference session: " + err.Error()
	}
	s.Ep.KeepReading(3)
	s.Ep.SetBuf(readBuf)
	dir := byte(1)
	if !victimIsClient {
		dir = 0
	}
	frames := make([][]byte, n)
	for i := range frames {
		frames[i] = s.Enc.Frame(refobfs4.PktPayload, vfCounterStream(dir, i*payload, payload), 0)
	}
	stream, damaged, _ := vfApplySurgery(frames, vfSurgery{Kind: "splice-body", Frame: at, Other: from}, nil)
	prefix := 0
	for _, f := range frames[:damaged] {
		prefix += len(f)
	}
	total, bound := n*payload, damaged*payload
	s.N.Inject(s.RefSide, stream)
	if prefix > 0 {
		s.N.Release(s.RefSide, prefix)
		if err := s.N.WaitQuiescent(s.RealSide); err != nil {
			return "VIOL[c05-wedge]: " + err.Error()
		}
		if msg := vfC05Prefix(s, dir, total, bound); msg != "" {
			return msg
		}
		if rerr := s.Ep.ReadErr(); rerr != nil || s.Ep.GotLen() != bound {
			return fmt.Sprintf("VIOL[c05-intact-frames-rejected]: %d intact frames (%d payload bytes) as the reference peer sends them, nothing altered yet: the victim delivered %d bytes and Read reported %v (the victim does not follow the frame counter sequence of the deployed format)", damaged, bound, s.Ep.GotLen(), rerr)
		}
	}
	s.N.ReleaseAll(s.RefSide)
	if err := s.N.WaitQuiescent(s.RealSide); err != nil {
		return "VIOL[c05-wedge]: " + err.Error()
	}
	if msg := vfC05Prefix(s, dir, total, bound); msg != "" {
		return msg + fmt.Sprintf(" (body of frame %d spliced into frame %d)", from, at)
	}
	rerr := s.Ep.ReadErr()
	if rerr == nil {
		return fmt.Sprintf("VIOL[c05-undetected]: frame %d carries the sealed body of frame %d and %d genuine frames follow; everything has been read and Read has not reported an error; delivered %d bytes", at, from, n-at-1, s.Ep.GotLen())
	}
	if errors.Is(rerr, io.EOF) {
		return "VIOL[c05-eof-instead-of-error]: Read reported io.EOF for a damaged stream"
	}
	s.N.EOF(s.RefSide)
	if err := s.N.WaitQuiescent(s.RealSide); err != nil {
		return "VIOL[c05-wedge]: " + err.Error()
	}
	if msg := vfC05Prefix(s, dir, total, bound); msg != "" {
		return msg
	}
	vfCloseTwice(s.Ep.Conn())
	return ""
}

func TestVerifC05LongSession(t *testing.T) {
	vfSetup(t)
	c := ev.For("C05")
	c.Rule("long-session: the real client or server (victim) reads n = 3..600 equally long frames (payload 1, 5 or 8 bytes of a counter stream) from the reference peer; frame `at` carries the sealed body of frame `from` behind its own length field, |at - from| in {256 (half of the cases), 512, 255, 257, 128, 1}, in either order (an on-path attacker can hold frames back); the intact frames before the spliced one are released first and must all be delivered without an error, then the rest: delivered bytes stay a prefix that ends before the spliced frame and Read reports a non-EOF error; one further case per victim role uses distance 65536; non-trivial = distance >= 255; fingerprint = n, payload, from, at, victim")
	c.Floor("long-distance-256/long", 0.3)
	run := func(rt *rapid.T) {
		rk := rapid.Uint64().Draw(rt, "randKey")
		defer vfRandSeedKey(rk)()
		br, _ := vfGenBridge(rt, []int{0})
		victimIsClient := rapid.Bool().Draw(rt, "victimIsClient")
		dist := rapid.SampledFrom([]int{256, 256, 256, 256, 512, 255, 257, 128, 1}).Draw(rt, "distance")
		a := rapid.IntRange(0, 40).Draw(rt, "first")
		b := a + dist
		n := b + 1 + rapid.IntRange(1, 5).Draw(rt, "tail")
		from, at := a, b
		if rapid.IntRange(0, 3).Draw(rt, "laterBodyFirst") == 0 {
			from, at = b, a
		}
		payload := rapid.SampledFrom([]int{1, 5, 8}).Draw(rt, "payload")
		readBuf := rapid.SampledFrom([]int{7, 1427, 65536}).Draw(rt, "readBuf")
		if msg := vfC05LongRun(br, rapid.Uint64().Draw(rt, "refEntropy"), victimIsClient, n, payload, from, at, readBuf); msg != "" {
			rt.Fatalf("%s\nvictimIsClient=%v n=%d payload=%d from=%d at=%d readBuf=%d", msg, victimIsClient, n, payload, from, at, readBuf)
		}
		cls := []string{"long", map[bool]string{true: "victim-client", false: "victim-server"}[victimIsClient]}
		if dist == 256 {
			cls = append(cls, "long-distance-256")
		}
		c.Case(ev.Hash("long", n, payload, from, at, victimIsClient, readBuf), dist >= 255, cls, func() any {
			return map[string]any{"victim_is_client": victimIsClient, "frames": n, "payload": payload, "body_of": from, "spliced_into": at, "read_buf": readBuf}
		})
	}
	rapid.Check(t, run)
	{
		br := vfBridge{ID: refobfs4.NewIdentity(vfEnt(77)(52)), Seed: vfEnt(78)(24)}
		for _, vc := range []bool{true, false} {
			if msg := vfC05LongRun(br, 7, vc, 65536+12, 1, 3, 3+65536, 65536); msg != "" {
				t.Fatalf("%s\nvictimIsClient=%v n=%d payload=1 from=3 at=%d", msg, vc, 65536+12, 3+65536)
			}
			c.Case(ev.Hash("long64k", vc), true, []string{"long", "long-distance-65536"}, func() any { return map[string]any{"victim_is_client": vc, "frames": 65536 + 12} })
		}
	}
}

// TestVerifC05Reflect: the attacker knows no key, but it has everything the endpoints themselves sealed.  The two
// directions are keyed separately, so the sealed body of a frame an endpoint SENT must not open in that
// endpoint's own decoder, even at the same frame number and behind a fitting length field.
func TestVerifC05Reflect(t *testing.T) {
	vfSetup(t)
	c := ev.For("C05")
	c.Rule("reflect: real client and real server, iat-mode 0; (a) victim server: the sealed body of the server's own seed frame (frame 1 of its direction, 45 bytes on the wire) replaces the body of the client's first frame (a 24-byte Write: also 45 bytes), whose length field is kept; (b) victim client: the server's seed frame is withheld, the client writes 24 bytes, and the body of that frame - which the client sealed itself - is presented to the client behind the seed frame's length field; 3000 genuine bytes follow in both variants; oracle: the victim delivers nothing (the forged frame is the first of its direction), in particular not its own bytes, and Read reports a non-EOF error; every case counts as non-trivial; fingerprint = bridge, variant")
	rapid.Check(t, func(rt *rapid.T) {
		rk := rapid.Uint64().Draw(rt, "randKey")
		defer vfRandSeedKey(rk)()
		br, _ := vfGenBridge(rt, []int{0})
		victimIsClient := rapid.Bool().Draw(rt, "victimIsClient")
		p, err := vfStartPair(br, false, 0)
		if p != nil && p.N != nil {
			defer p.N.Shutdown()
		}
		if err != nil {
			rt.Fatalf("VIOL[c05-wedge]: %v", err)
		}
		p.N.ReleaseAll(wire.A)
		if err := p.N.WaitQuiescent(wire.A, wire.B); err != nil {
			rt.Fatalf("VIOL[c05-wedge]: %v", err)
		}
		resp := append([]byte(nil), p.N.PendingBytes(wire.B)...)
		const fl = 45 // 2 length + 16 tag + 3 packet header + 24 bytes
		if len(resp) < 96+fl {
			rt.Fatalf("INFRA: server response of %d bytes", len(resp))
		}
		seedFrame := resp[len(resp)-fl:]
		fail := func(f string, a ...any) {
			rt.Fatalf(f+"\nvictimIsClient=%v", append(a, victimIsClient)...)
		}
		write := func(ep *drive.Endpoint, dir byte, off, n int) {
			if r, _, _ := ep.Write(vfCounterStream(dir, off, n)); r.Failed() || r.Err != nil {
				fail("VIOL[c05-write]: %s", r)
			}
		}
		var victim *drive.Endpoint
		var dir byte
		if !victimIsClient {
			victim, dir = p.Sv, 0
			p.N.ReleaseAll(wire.B)
			if err := p.N.WaitQuiescent(wire.A, wire.B); err != nil {
				fail("VIOL[c05-wedge]: %v", err)
			}
			victim.KeepReading(3)
			write(p.Cl, 0, 0, 24)
			pend := append([]byte(nil), p.N.PendingBytes(wire.A)...)
			if len(pend) < fl {
				fail("VIOL[c05-write]: a 24-byte Write put %d bytes on the wire", len(pend))
			}
			mod := append(append(append([]byte(nil), pend[:2]...), seedFrame[2:]...), pend[fl:]...)
			p.N.SetPending(wire.A, mod)
			write(p.Cl, 0, 24, 3000)
			p.N.ReleaseAll(wire.A)
		} else {
			victim, dir = p.Cl, 1
			p.N.Release(wire.B, len(resp)-fl)
			if err := p.N.WaitQuiescent(wire.A, wire.B); err != nil {
				fail("VIOL[c05-wedge]: %v", err)
			}
			if !p.Cl.SetupDone() || p.Cl.SetupErr() != nil {
				fail("VIOL[c05-wedge]: client handshake not complete with the whole response delivered (done=%v err=%v)", p.Cl.SetupDone(), p.Cl.SetupErr())
			}
			victim.KeepReading(3)
			write(p.Cl, 0, 0, 24)
			pend := append([]byte(nil), p.N.PendingBytes(wire.A)...)
			if len(pend) < fl {
				fail("VIOL[c05-write]: a 24-byte Write put %d bytes on the wire", len(pend))
			}
			p.N.ReleaseAll(wire.A)
			if err := p.N.WaitQuiescent(wire.A, wire.B); err != nil {
				fail("VIOL[c05-wedge]: %v", err)
			}
			p.N.SetPending(wire.B, append(append([]byte(nil), seedFrame[:2]...), pend[2:fl]...))
			write(p.Sv, 1, 0, 3000)
			p.N.ReleaseAll(wire.B)
		}
		if err := p.N.WaitQuiescent(wire.A, wire.B); err != nil {
			fail("VIOL[c05-wedge]: %v", err)
		}
		if pv, stk := victim.Panic(); pv != nil {
			fail("VIOL[c05-panic]: %v\n%s", pv, stk)
		}
		got := victim.Got()
		want := vfCounterStream(dir, 0, 3024)
		if len(got) > len(want) || !bytes.Equal(got, want[:len(got)]) {
			fail("VIOL[c05-not-a-prefix]: the victim was sent the sealed body of a frame it had sealed itself and delivered %d bytes that are not a prefix of what its peer wrote (its own frames open in its own decoder)", len(got))
		}
		_, after := victim.AfterErr()
		if len(got)-after > 0 {
			fail("VIOL[c05-delivered-past-damage]: the first frame of the direction was forged and the victim delivered %d bytes before it reported an error", len(got)-after)
		}
		if rerr := victim.ReadErr(); rerr == nil {
			fail("VIOL[c05-undetected]: a frame the victim sealed itself was accepted in its incoming direction: everything has been read and Read has not reported an error (delivered %d bytes)", len(got))
		} else if errors.Is(rerr, io.EOF) {
			fail("VIOL[c05-eof-instead-of-error]: Read reported io.EOF for a forged frame")
		}
		vfCloseTwice(p.Cl.Conn(), p.Sv.Conn())
		cls := []string{"reflect", map[bool]string{true: "victim-client", false: "victim-server"}[victimIsClient]}
		c.Case(ev.Hash("reflect", br.Seed, br.ID.NodeID, victimIsClient, rk), true, cls, func() any {
			return map[string]any{"victim_is_client": victimIsClient, "seed": ev.Hex(br.Seed)}
		})
	})
}

func vfDummyFrames(specs []vfFrameSpec) [][]byte {
	all := append(append([]vfFrameSpec(nil), specs...), vfFrameSpec{0, 1427, 0}, vfFrameSpec{0, 1427, 0}, vfFrameSpec{0, 1427, 0})
	out := make([][]byte, len(all))
	for i, s := range all {
		out[i] = make([]byte, refobfs4.HeaderLen+s.Payload+s.Pad)
		out[i][0] = byte(i + 1)
	}
	return out
}

// TestVerifC05BitEnum flips every bit of one frame per size class (sharded).
func TestVerifC05BitEnum(t *testing.T) {
	vfSetup(t)
	c := ev.For("C05")
	c.Rule("bit-enum: every bit position of the second frame of a three-frame sequence, for frame size classes 21 (empty), 22, 121 and 1448 bytes, both victim roles; oracle as above")
	if rc := os.Getenv("VERIF_REPLAY_CASE"); rc != "" {
		var size, bit, role int
		fmt.Sscanf(rc, "[%d,%d,%d]", &size, &bit, &role)
		if msg := vfC05EnumOne(size, bit, role == 1); msg != "" {
			t.Fatalf("%s", msg)
		}
		return
	}
	shard, nshards := ev.IntEnv("VERIF_SHARD", 0), ev.IntEnv("VERIF_NSHARDS", 1)
	sizes := []int{0, 1, 100, 1427}
	stride := 1
	if !ev.Thorough() {
		stride = 41 // quick: every 41st bit, offset by the seed
	}
	start := ev.IntEnv("VERIF_SEED", 1) % stride
	count := int64(0)
	i := 0
	for _, sz := range sizes {
		nbits := (refobfs4.HeaderLen + sz) * 8
		for bit := start; bit < nbits; bit += stride {
			for role := 0; role < 2; role++ {
				i++
				if i%nshards != shard {
					continue
				}
				if msg := vfC05EnumOne(sz, bit, role == 1); msg != "" {
					fmt.Printf("VERIF-REPLAY-CASE: [%d,%d,%d]\n", sz, bit, role)
					t.Fatalf("%s\nframe payload size %d, bit %d, victimIsClient=%v", msg, sz, bit, role == 1)
				}
				count++
			}
		}
	}
	c.Bulk(count, count)
	c.Class("bit-enum-cases", count)
	if ev.Thorough() {
		c.Subspace("single-bit flips of one whole frame for payload sizes 0, 1, 100, 1427 x both roles", count)
	}
	c.Sample(ev.Hash("bitenum", shard, start), map[string]any{"unit": "bit-enum", "cases": count, "stride": stride, "first_bit": start})
}

func vfC05EnumOne(size, bit int, victimIsClient bool) string {
	br := vfBridge{ID: refobfs4.NewIdentity(vfEnt(77)(52)), Seed: vfEnt(78)(24)}
	specs := []vfFrameSpec{{0, 50, 3}, {0, size, 0}, {0, 9, 0}}
	op := vfSurgery{Kind: "flip", Frame: 1, Off: bit}
	msg, _ := vfC05Run(br, uint64(size*100000+bit), victimIsClient, specs, op, nil, 65536)
	return msg
}

// ---- real <-> real, blind surgery --------------------------------------------------------------

func TestVerifC05Blind(t *testing.T) {
	vfSetup(t)
	c := ev.For("C05")
	c.Rule("blind: real client and real server; one side writes 2-4 bursts, the harness (not knowing the keys) flips / inserts / deletes bytes at a generated offset of the pending ciphertext, the sender then writes 3000 more bytes; oracle: receiver's bytes stay a prefix, never exceed the payload of frames complete before the damage offset, and Read reports a non-EOF error once everything has been read; the receiver calls Read three more times after the first error")
	rapid.Check(t, func(rt *rapid.T) {
		rk := rapid.Uint64().Draw(rt, "randKey")
		defer vfRandSeedKey(rk)()
		br, _ := vfGenBridge(rt, []int{0, 0, 1})
		p, err := vfStartPair(br, false, br.IAT)
		if p != nil && p.N != nil {
			defer p.N.Shutdown()
		}
		if err != nil {
			rt.Fatalf("VIOL[c05-wedge]: %v", err)
		}
		if err := p.vfFinishHandshake(); err != nil {
			rt.Fatalf("VIOL[c05-wedge]: %v", err)
		}
		d := rapid.IntRange(0, 1).Draw(rt, "direction")
		sender, receiver := p.Cl, p.Sv
		if d == 1 {
			sender, receiver = p.Sv, p.Cl
		}
		receiver.KeepReading(3)
		side := wire.Side(d)
		var st vfDirState
		base := p.N.Written(side)
		nb := rapid.IntRange(2, 4).Draw(rt, "bursts")
		for i := 0; i < nb; i++ {
			sz := rapid.SampledFrom([]int{1, 100, 1427, 1428, 3000}).Draw(rt, "size")
			start := p.N.Written(side)
			if r, _, _ := sender.Write(vfCounterStream(byte(d), st.written, sz)); r.Failed() || r.Err != nil {
				rt.Fatalf("VIOL[c05-write]: %s", r)
			}
			st.bursts = append(st.bursts, vfBurst{start, sz})
			st.written += sz
		}
		pend := p.N.PendingBytes(side)
		rel := p.N.Released(side)
		if int64(len(pend)) != p.N.Written(side)-rel || rel != base {
			rt.Fatalf("INFRA: unexpected wire state")
		}
		off := rapid.IntRange(0, len(pend)-1).Draw(rt, "damageAt")
		var mod []byte
		kind := rapid.SampledFrom([]string{"flip", "insert", "delete"}).Draw(rt, "blindKind")
		switch kind {
		case "flip":
			mod = append([]byte(nil), pend...)
			mod[off] ^= 1 << uint(rapid.IntRange(0, 7).Draw(rt, "bit"))
		case "insert":
			mod = append(append(append([]byte(nil), pend[:off]...), byte(rapid.IntRange(0, 255).Draw(rt, "byte"))), pend[off:]...)
		default:
			mod = append(append([]byte(nil), pend[:off]...), pend[off+1:]...)
		}
		p.N.SetPending(side, mod)
		if r, _, _ := sender.Write(vfCounterStream(byte(d), st.written, 3000)); r.Failed() || r.Err != nil {
			rt.Fatalf("VIOL[c05-write]: %s", r)
		}
		if err := vfReleaseChunks(rt, p.N, side, "rel", wire.A, wire.B); err != nil {
			rt.Fatalf("VIOL[c05-wedge]: %v", err)
		}
		if pv, stk := receiver.Panic(); pv != nil {
			rt.Fatalf("VIOL[c05-panic]: %v\n%s", pv, stk)
		}
		bound := st.expected(rel + int64(off))
		got := receiver.Got()
		full := vfCounterStream(byte(d), 0, st.written+3000)
		if len(got) > len(full) || !bytes.Equal(got, full[:len(got)]) {
			rt.Fatalf("VIOL[c05-not-a-prefix]: receiver delivered %d bytes that are not a prefix of what the peer wrote (%s at %d)", len(got), kind, off)
		}
		if _, after := receiver.AfterErr(); len(got)-after > bound {
			rt.Fatalf("VIOL[c05-delivered-past-damage]: receiver delivered %d bytes before it reported an error; frames complete before the damage at ciphertext offset %d carry %d (%s)", len(got)-after, off, bound, kind)
		}
		rerr := receiver.ReadErr()
		if rerr == nil || errors.Is(rerr, io.EOF) {
			rt.Fatalf("VIOL[c05-undetected]: %s at ciphertext offset %d of %d: everything read, Read error = %v", kind, off, len(pend), rerr)
		}
		c.Case(ev.Hash("blind", kind, off, fmt.Sprint(st.bursts), rk), bound > 0, []string{"blind", "blind-" + kind}, func() any {
			return map[string]any{"unit": "blind", "direction": side.String(), "op": kind, "offset": off, "bursts": fmt.Sprint(st.bursts)}
		})
	})
}

// TestVerifC05Duplex: "never delivers bytes the peer did not send" also when the
// attacker does nothing and both directions of a connection are busy at once
// (reader and writer goroutine of each endpoint in parallel, as the relay runs
// them) - the C01 free-running case under C05's name, thorough under -race.
func TestVerifC05Duplex(t *testing.T) {
	vfSetup(t)
	c := ev.For("C05")
	c.Rule("duplex: untampered full-duplex traffic - one reader and one writer goroutine per endpoint, all four at once, free-running wire with random segmentation, generated write sizes and pauses; oracle: each side delivers exactly what its peer wrote (in particular never its own outgoing bytes or padding), no panic, no Read error (thorough: -race); non-trivial = both directions carry a multi-frame write")
	rapid.Check(t, func(rt *rapid.T) { vfFreeRunningCase(rt, c) })
}

// FuzzVerifC05TamperedStream: bytes -> surgery op over a fixed exchange.
func FuzzVerifC05TamperedStream(f *testing.F) {
	vfSetup(f)
	f.Add([]byte{0, 1, 0, 0, 0, 5, 0, 3})
	f.Add([]byte{1, 2, 0, 0, 1, 0, 10, 1})
	f.Add([]byte{3, 0, 0, 0, 0, 30, 64, 7})
	f.Add([]byte{9, 3, 1, 0, 7, 0xff, 1, 0})
	f.Add([]byte{5, 4, 2, 0, 0, 0, 0, 2})
	f.Add([]byte{7, 5, 0, 0, 21, 0, 9, 4})
	specs := []vfFrameSpec{{0, 50, 3}, {0, 0, 20}, {0, 1427, 0}, {7, 10, 0}, {0, 1, 0}, {0, 700, 100}}
	lens := vfSpecLens(specs)
	total := 0
	for _, l := range lens {
		total += l
	}
	kinds := []string{"flip", "insert", "delete", "dropframe", "dupframe", "swap", "replay", "truncate", "splice-body", "swap-length-fields", "relength"}
	br := vfBridge{ID: refobfs4.NewIdentity(vfEnt(55)(52)), Seed: vfEnt(56)(24)}
	f.Fuzz(func(t *testing.T, in []byte) {
		if len(in) < 8 {
			return
		}
		op := vfSurgery{Kind: kinds[int(in[0])%len(kinds)], Frame: int(in[1]) % len(specs)}
		v := int(binary.BigEndian.Uint32(in[2:6]))
		if v < 0 {
			v = -v
		}
		switch op.Kind {
		case "flip":
			op.Off = v % (lens[op.Frame] * 8)
		case "insert":
			op.Off, op.Len = v%total, 1+int(in[6])%64
		case "delete":
			op.Off = v % total
			op.Len = 1 + int(in[6])%vfMin(64, total-op.Off)
		case "swap":
			op.Frame = int(in[1]) % (len(specs) - 1)
		case "replay":
			op.Other = int(in[6]) % (op.Frame + 1)
		case "splice-body":
			if op.Frame == 0 {
				op.Frame = 1
			}
			op.Other = int(in[6]) % op.Frame
		case "swap-length-fields":
			op.Frame = int(in[1]) % (len(specs) - 1)
		case "relength":
			op.Len = 16 + v%1431
			if op.Len == lens[op.Frame]-2 {
				op.Len = 16
			}
		case "truncate":
			op.Off = v % total
		}
		chunks := []int{1 + int(in[7])*7}
		msg, _ := vfC05Run(br, uint64(in[7]), in[6]&1 == 1, specs, op, chunks, []int{1, 7, 1427, 65536}[int(in[7])%4])
		if msg != "" {
			t.Fatalf("%s\nop=%s input=%s", msg, op, strconv.Quote(string(in)))
		}
	})
}

func vfMin(a, b int) int {
	if a < b {
		return a
	}
	return b
}
