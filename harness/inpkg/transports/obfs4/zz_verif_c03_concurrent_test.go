//go:build verif

package obfs4

// C03 - silence towards probes also holds while other connections of the same bridge process (further probes,
// genuine clients) are being handled at the same time.

import (
	"fmt"
	"strings"
	"sync"
	"testing"

	"pgregory.net/rapid"

	"gitlab.com/yawning/obfs4.git/internal/verifkit/ev"
	"gitlab.com/yawning/obfs4.git/internal/verifkit/refobfs4"
	"gitlab.com/yawning/obfs4.git/internal/verifkit/wire"
)

func TestVerifC03Concurrent(t *testing.T) {
	vfSetup(t)
	c := ev.For("C03")
	c.Rule("concurrent: per case one bridge and 3..10 connections handled at the same time (one goroutine each, released behind a common barrier): probes of the generated classes of 'probes' (incl. a replay of a handshake accepted before) under generated segment plans, and genuine reference clients; oracle: every probe meets the silence / drain / seeded-close oracle of 'probes', every genuine client is accepted and its response verifies in the reference client; non-trivial = at least two probes and one genuine client at once; fingerprint = classes, plans")
	c.Floor("concurrent-with-genuine/concurrent", 0.5)
	rapid.Check(t, func(rt *rapid.T) {
		rk := rapid.Uint64().Draw(rt, "randKey")
		defer vfRandSeedKey(rk)()
		br, _ := vfGenBridge(rt, []int{0})
		ent := vfEnt(rapid.Uint64().Draw(rt, "refEntropy"))
		sf, err := vfServerFactory(br)
		if err != nil {
			rt.Fatalf("VIOL[c03-serverfactory]: %v", err)
		}
		hour0 := vfHourNow()
		prior, ok, _, _, sc0, err := vfAcceptOne(sf, br, ent, 0)
		if sc0 != nil {
			defer sc0.n.Shutdown()
		}
		if err != nil {
			rt.Fatalf("VIOL[c03-wedge]: %v", err)
		}
		if !ok {
			if vfHourNow() != hour0 {
				rt.Skip("hour changed")
			}
			rt.Fatalf("VIOL[c03-valid-rejected]: a valid fresh handshake was not accepted: %v", sc0.ep.SetupErr())
		}
		type conn struct {
			class     string
			probe     []byte
			plan      vfSendPlan
			peerFirst bool
			desc      string
			cl        *refobfs4.Client
			sc        *vfSrvConn
			msg       string
		}
		k := rapid.IntRange(3, 10).Draw(rt, "connections")
		conns := make([]*conn, k)
		nProbe, nGenuine := 0, 0
		for i := range conns {
			cn := &conn{}
			if rapid.IntRange(0, 2).Draw(rt, "genuine") == 0 {
				cn.class = "genuine"
				cn.cl = &refobfs4.Client{ID: refobfs4.Identity{Pub: br.ID.Pub, NodeID: br.ID.NodeID}, Key: refobfs4.NewEKey(ent),
					Pad: ent(refobfs4.ClientMinPad + rapid.IntRange(0, 400).Draw(rt, "pad")), Hour: hour0}
				cn.probe = append([]byte(nil), cn.cl.Handshake()...)
				cn.desc = fmt.Sprintf("genuine(%d bytes)", len(cn.probe))
				nGenuine++
			} else {
				cn.class = rapid.SampledFrom(vfProbeClasses).Draw(rt, "class")
				var avoid int
				cn.probe, avoid, cn.desc = vfGenProbe(rt, cn.class, br, ent, hour0, prior)
				cn.plan = vfGenPlan(rt, len(cn.probe), avoid)
				cn.peerFirst = rapid.IntRange(0, 3).Draw(rt, "peerDisconnectsFirst") == 0
				nProbe++
			}
			conns[i] = cn
		}
		for _, cn := range conns {
			sc, err := vfOpenServerConn(sf)
			if sc != nil {
				defer sc.n.Shutdown()
			}
			if err != nil {
				rt.Fatalf("VIOL[c03-wedge]: %v", err)
			}
			cn.sc = sc
		}
		var wg sync.WaitGroup
		start := make(chan struct{})
		for _, cn := range conns {
			wg.Add(1)
			go func(cn *conn) {
				defer wg.Done()
				<-start
				if cn.class != "genuine" {
					cn.msg = vfRunProbe(cn.sc, cn.probe, cn.plan)
					return
				}
				cn.sc.n.Inject(wire.A, cn.probe)
				cn.sc.n.ReleaseAll(wire.A)
				if err := cn.sc.n.WaitQuiescent(wire.B); err != nil {
					cn.msg = "VIOL[c03-wedge]: " + err.Error()
					return
				}
				if pv, st := cn.sc.ep.Panic(); pv != nil {
					cn.msg = fmt.Sprintf("VIOL[c03-panic]: server panicked on a genuine handshake: %v\n%s", pv, st)
					return
				}
				resp := cn.sc.n.Take(wire.B)
				if !cn.sc.ep.SetupDone() || cn.sc.ep.SetupErr() != nil || len(resp) == 0 {
					cn.msg = fmt.Sprintf("VIOL[c03-valid-rejected]: a genuine client that connected while %d probes were being handled was not accepted (done=%v err=%v)", nProbe, cn.sc.ep.SetupDone(), cn.sc.ep.SetupErr())
					return
				}
				if _, perr := cn.cl.ParseResponse(resp); perr != nil {
					cn.msg = fmt.Sprintf("VIOL[c03-valid-rejected]: the response to a genuine client that connected while %d probes were being handled does not verify: %v", nProbe, perr)
				}
			}(cn)
		}
		close(start)
		wg.Wait()
		if vfHourNow() != hour0 {
			rt.Skip("hour changed during the case")
		}
		var descs []string
		for _, cn := range conns {
			descs = append(descs, cn.desc)
		}
		fail := func(cn *conn, msg string) {
			rt.Fatalf("%s\nconnection %s plan %v; all connections of the case (handled at the same time): %v", msg, cn.desc, cn.plan, descs)
		}
		for _, cn := range conns {
			if cn.msg != "" {
				fail(cn, cn.msg)
			}
		}
		for _, cn := range conns {
			if cn.class == "genuine" {
				continue
			}
			if msg := vfFinish(cn.sc, cn.peerFirst); msg != "" {
				fail(cn, msg)
			}
			if _, msg := vfCheckSilent(cn.sc, cn.peerFirst); msg != "" {
				fail(cn, msg)
			}
		}
		cls := []string{"concurrent"}
		if nGenuine > 0 {
			cls = append(cls, "concurrent-with-genuine")
		}
		c.Case(ev.Hash("c03conc", strings.Join(descs, ","), rk), nProbe >= 2 && nGenuine >= 1, cls, func() any {
			return map[string]any{"connections": descs, "seed": ev.Hex(br.Seed)}
		})
	})
}
