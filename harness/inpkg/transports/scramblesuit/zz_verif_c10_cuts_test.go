//go:build verif

package scramblesuit

// C10 ScrambleSuit stage 3: cut enumeration.  A valid exchange produced by the
// reference server is cut by EOF / an injected read error at every byte offset
// of the stream the client reads, and write errors are injected at sampled
// offsets of what the client writes.

import (
	"encoding/json"
	"fmt"
	"os"
	"sort"
	"testing"

	"gitlab.com/yawning/obfs4.git/internal/verifkit/ev"
	"gitlab.com/yawning/obfs4.git/internal/verifkit/refss"
	"gitlab.com/yawning/obfs4.git/internal/verifkit/wire"
)

// vf10Exchange names one valid exchange.
type vf10Exchange struct {
	Name   string
	Ticket bool
	Pad    int // server padding (UniformDH)
}

var vf10Exchanges = []vf10Exchange{
	{"uniformdh-pad0", false, 0},   // minimum padding: response of 224 bytes
	{"uniformdh-pad17", false, 17}, // response end 1 byte behind an allocator size class
	{"ticket", true, 0},
}

type vf10Cut struct {
	Exchange int    `json:"exchange"`
	Kind     string `json:"kind"` // "read" or "write"
	Off      int    `json:"off"`
	Ending   int    `json:"ending"` // read cuts: EOF or read error
	Chunk    int    `json:"chunk"`  // read cuts: 0 = one segment, else segment size
}

const vf10CutSeed = 0xc0715

// vf10ServerStream builds the valid server->client stream of an exchange and
// returns it with the packet boundaries and the payload delivered up to each.
func vf10ServerStream(c *vf10Client, x vf10Exchange) (stream []byte, bounds []int, cum []int, respLen int, want []byte) {
	if !x.Ticket {
		c.udhSession(vf10CutSeed)
		stream = c.sess.Response(vf15Fill(vf10CutSeed, 0x20, x.Pad))
		respLen = len(stream)
	}
	add := func(flags byte, payload []byte, pad int) {
		stream = append(stream, c.sess.Packet(flags, payload, pad)...)
		if flags == refss.FlagPayload {
			want = append(want, payload...)
		}
		bounds = append(bounds, len(stream))
		cum = append(cum, len(want))
	}
	add(refss.FlagPayload, vf15Fill(vf10CutSeed, 0x21, 5), 0)
	add(refss.FlagPayload, vf15Fill(vf10CutSeed, 0x22, 300), 7)
	add(refss.FlagNewTicket, c.srv.Auth.Issue(vf15Fill(vf10CutSeed, 0x23, 16)).Payload(), 0)
	add(refss.FlagPrngSeed, vf15Fill(vf10CutSeed, 0x24, refss.SeedLen), 3)
	add(refss.FlagPayload, vf15Fill(vf10CutSeed, 0x25, 1), 0)
	add(refss.FlagPayload, nil, 0)
	add(refss.FlagPayload, nil, 40)
	add(refss.FlagPayload, vf15Fill(vf10CutSeed, 0x26, 64), 1)
	return
}

var vf10ClientWrites = []int{10, 1500, 0, 3000}

// vf10RunCut runs one cut; returns "" or a violation.
func vf10RunCut(cs vf10Cut) string {
	x := vf10Exchanges[cs.Exchange]
	var pre func(*wire.Net)
	if cs.Kind == "write" {
		pre = func(n *wire.Net) { n.WriteErrAt(wire.A, int64(cs.Off), vf10Injected) }
	}
	c, err := vf10DialPre(vf10CutSeed, x.Ticket, false, pre)
	if err != nil {
		return "INFRA: " + err.Error()
	}
	defer c.close()
	if msg := c.wait(); msg != "" {
		return msg
	}
	ctx := fmt.Sprintf("exchange %s, %s cut at %d", x.Name, cs.Kind, cs.Off)
	if cs.Kind == "write" {
		return vf10RunWriteCut(c, x, cs, ctx)
	}
	if msg := c.readHello(); msg != "" {
		return msg
	}
	stream, bounds, cum, respLen, want := vf10ServerStream(c, x)
	if cs.Off > len(stream) {
		return fmt.Sprintf("INFRA: cut %d beyond the stream of %d bytes", cs.Off, len(stream))
	}
	var chunks []int
	if cs.Chunk > 0 {
		chunks = []int{cs.Chunk}
	}
	if msg := c.feed(stream[:cs.Off], chunks, 3); msg != "" {
		return msg + " [" + ctx + "]"
	}
	if msg := c.end(cs.Ending, int64(cs.Off)); msg != "" {
		return msg + " [" + ctx + "]"
	}
	if msg := c.deadlines(); msg != "" {
		return msg + " [" + ctx + "]"
	}
	exp := 0
	for i, b := range bounds {
		if b <= cs.Off {
			exp = cum[i]
		}
	}
	got := c.ep.Got()
	if !vf10IsPrefix(got, want) {
		return fmt.Sprintf("VIOL[c10-scramblesuit-bogus-data]: %s: the client delivered %d bytes that are not a prefix of the stream's payload", ctx, len(got))
	}
	if c.ep.SetupErr() == nil && len(got) != exp {
		return fmt.Sprintf("VIOL[c10-scramblesuit-delivery]: %s (%s): complete packets in front of the cut carry %d payload bytes, the client delivered %d before reporting %v", ctx, vf10EndNames[cs.Ending], exp, len(got), c.ep.ReadErr())
	}
	_ = respLen // whether Dial may succeed on a partial response is C15's claim, not C10's
	return ""
}

// vf10RunWriteCut: the write error is already armed; the exchange goes on as
// far as it can, every call during which the error was returned by the wire
// must itself return an error.
func vf10RunWriteCut(c *vf10Client, x vf10Exchange, cs vf10Cut, ctx string) string {
	if c.n.WriteErrHits(wire.A) > 0 {
		if !c.ep.SetupDone() || c.ep.SetupErr() == nil {
			return fmt.Sprintf("VIOL[c10-scramblesuit-write-error-lost]: %s: the handshake write failed on the wire, Dial has not returned an error (done=%v)", ctx, c.ep.SetupDone())
		}
		return ""
	}
	if c.ep.SetupDone() && c.ep.SetupErr() != nil {
		return fmt.Sprintf("INFRA: %s: Dial failed without a fault: %v", ctx, c.ep.SetupErr())
	}
	if msg := c.readHello(); msg != "" {
		return msg
	}
	stream, _, _, _, _ := vf10ServerStream(c, x)
	if msg := c.feed(stream, nil, 1); msg != "" {
		return msg + " [" + ctx + "]"
	}
	if !c.ep.SetupDone() || c.ep.SetupErr() != nil {
		return fmt.Sprintf("INFRA: %s: handshake did not complete: %v", ctx, c.ep.SetupErr())
	}
	for i, w := range vf10ClientWrites {
		before := c.n.WriteErrHits(wire.A)
		res, _, _ := c.ep.Write(vf15Fill(vf10CutSeed, 0x30+uint64(i), w))
		if res.Panic != nil {
			return fmt.Sprintf("VIOL[c10-scramblesuit-panic]: %s: client Write %d (%d bytes): %s", ctx, i, w, res.String())
		}
		if res.TimedOut {
			return fmt.Sprintf("VIOL[c10-scramblesuit-wedge]: %s: client Write %d (%d bytes) did not return within 60 s\n%s", ctx, i, w, res.Stack)
		}
		if c.n.WriteErrHits(wire.A) > before && res.Err == nil {
			return fmt.Sprintf("VIOL[c10-scramblesuit-write-error-lost]: %s: the wire failed a write during client Write %d (%d bytes), the call returned nil", ctx, i, w)
		}
		c.n.Take(wire.A)
		if msg := c.wait(); msg != "" {
			return msg + " [" + ctx + "]"
		}
	}
	if msg := c.end(vf10EndEOF, int64(len(stream))); msg != "" {
		return msg + " [" + ctx + "]"
	}
	return c.deadlines()
}

// vf10DryRun performs the exchange without faults and returns the length of
// the server stream, its interesting offsets, and the client's write offsets.
func vf10DryRun(xi int) (streamLen int, readEdges []int, written int, writeEdges []int, msg string) {
	x := vf10Exchanges[xi]
	c, err := vf10Dial(vf10CutSeed, x.Ticket, false)
	if err != nil {
		return 0, nil, 0, nil, "INFRA: " + err.Error()
	}
	defer c.close()
	if msg := c.wait(); msg != "" {
		return 0, nil, 0, nil, msg
	}
	hello := int(c.n.Written(wire.A))
	if msg := c.readHello(); msg != "" {
		return 0, nil, 0, nil, msg
	}
	stream, bounds, _, respLen, want := vf10ServerStream(c, x)
	if msg := c.feed(stream, nil, 1); msg != "" {
		return 0, nil, 0, nil, msg
	}
	if !c.ep.SetupDone() || c.ep.SetupErr() != nil {
		return 0, nil, 0, nil, fmt.Sprintf("INFRA: fault-free handshake failed: %v", c.ep.SetupErr())
	}
	writeEdges = []int{0, 1, hello - 1, hello, hello + 1}
	if !x.Ticket {
		writeEdges = append(writeEdges, refss.KeySize-1, refss.KeySize, refss.KeySize+1, hello-refss.MacLen, hello-2*refss.MacLen)
	} else {
		writeEdges = append(writeEdges, refss.TicketLen-1, refss.TicketLen, refss.TicketLen+1)
	}
	for i, w := range vf10ClientWrites {
		start := int(c.n.Written(wire.A))
		res, _, _ := c.ep.Write(vf15Fill(vf10CutSeed, 0x30+uint64(i), w))
		if res.Failed() || res.Err != nil {
			return 0, nil, 0, nil, fmt.Sprintf("INFRA: fault-free client Write failed: %s", res.String())
		}
		end := int(c.n.Written(wire.A))
		writeEdges = append(writeEdges, start, start+1, start+refss.MacLen, start+refss.PktOverhead, start+refss.PktOverhead+1, end-1)
		c.n.Take(wire.A)
	}
	written = int(c.n.Written(wire.A))
	if msg := c.end(vf10EndEOF, int64(len(stream))); msg != "" {
		return 0, nil, 0, nil, msg
	}
	if got := c.ep.Got(); string(got) != string(want) {
		return 0, nil, 0, nil, fmt.Sprintf("INFRA: fault-free exchange delivered %d of %d bytes", len(got), len(want))
	}
	edges := []int{0, len(stream)}
	if respLen > 0 {
		edges = append(edges, refss.KeySize, respLen-2*refss.MacLen, respLen-refss.MacLen, respLen)
	}
	prev := respLen
	for _, b := range bounds {
		edges = append(edges, prev+refss.MacLen, prev+refss.PktOverhead, b)
		prev = b
	}
	for _, e := range edges {
		for d := -2; d <= 2; d++ {
			if e+d >= 0 && e+d <= len(stream) {
				readEdges = append(readEdges, e+d)
			}
		}
	}
	return len(stream), readEdges, written, writeEdges, ""
}

func TestVerifC10ScramblesuitCuts(t *testing.T) {
	if err := vf15Anchors(); err != nil {
		t.Fatalf("INFRA: reference server anchors: %v", err)
	}
	if rc := os.Getenv("VERIF_REPLAY_CASE"); rc != "" {
		var cs vf10Cut
		if err := json.Unmarshal([]byte(rc), &cs); err != nil {
			t.Fatalf("bad replay case: %v", err)
		}
		if msg := vf10RunCut(cs); msg != "" {
			fmt.Printf("VERIF-REPLAY-CASE: %s\n", rc)
			if vf10Unstoppable(msg) {
				vf10Abort("TestVerifC10ScramblesuitCuts", msg)
			}
			t.Fatalf("%s", msg)
		}
		return
	}
	c := vf10Ev()
	c.Rule("scramblesuit-cuts: valid exchanges with the reference server (UniformDH with minimum padding = 224-byte response; UniformDH with padding 17; ticket handshake), server stream = response + payload / NEW_TICKET / PRNG_SEED / empty / padding-only packets (~0.9 KiB): the stream the client reads is cut by EOF and by an injected read error at EVERY byte offset (quick: every offset within 2 of a field or packet boundary + stride 7), delivered in one segment and in 97-byte segments; a write error is injected at sampled offsets of what the client writes (hello and four application writes of 10/1500/0/3000 bytes: field and packet boundaries +-1, stride 211, thorough 13); oracle: no panic, no wedge, Dial / Read / Write in progress returns an error, exactly the payload of the complete packets in front of the cut is delivered, buffer gauges, deadline armed before the first Read, never moved later during the exchange, and cleared after a successful handshake; non-trivial = cut behind the first 224 bytes or inside the client's application writes; distinct by construction")
	shard, nshards := ev.IntEnv("VERIF_SHARD", 0), ev.IntEnv("VERIF_NSHARDS", 1)
	var cases []vf10Cut
	nt := map[vf10Cut]bool{}
	for xi, x := range vf10Exchanges {
		first := len(cases)
		sl, redges, written, wedges, msg := vf10DryRun(xi)
		if msg != "" {
			t.Fatalf("%s (dry run of %s)", msg, x.Name)
		}
		offs := map[int]bool{}
		for _, e := range redges {
			offs[e] = true
		}
		stride := 7
		if ev.Thorough() {
			stride = 1
		}
		for o := 0; o <= sl; o += stride {
			offs[o] = true
		}
		var list []int
		for o := range offs {
			list = append(list, o)
		}
		sort.Ints(list)
		for _, o := range list {
			for v := 0; v < 4; v++ {
				if !ev.Thorough() && v != o%4 {
					continue // quick: one (ending, segmentation) combination per offset, rotating
				}
				cs := vf10Cut{Exchange: xi, Kind: "read", Off: o, Ending: v & 1, Chunk: (v >> 1) * 97}
				cases = append(cases, cs)
				nt[cs] = o > refss.KeySize+2*refss.MacLen
			}
		}
		woffs := map[int]bool{}
		for _, e := range wedges {
			if e >= 0 && e < written {
				woffs[e] = true
			}
		}
		wstride := 211
		if ev.Thorough() {
			wstride = 13
		}
		for o := 0; o < written; o += wstride {
			woffs[o] = true
		}
		list = list[:0]
		for o := range woffs {
			list = append(list, o)
		}
		sort.Ints(list)
		for _, o := range list {
			cs := vf10Cut{Exchange: xi, Kind: "write", Off: o}
			cases = append(cases, cs)
			nt[cs] = true
		}
		if shard == 0 {
			c.Subspace(fmt.Sprintf("scramblesuit-cuts %s: read cuts over a stream of %d bytes x {EOF, read error} x {one segment, 97-byte segments}; write faults over %d written bytes", x.Name, sl, written), int64(len(cases)-first))
		}
	}
	var evals, ntc int64
	for i, cs := range cases {
		if i%nshards != shard {
			continue
		}
		if msg := vf10RunCut(cs); msg != "" {
			js, _ := json.Marshal(cs)
			fmt.Printf("VERIF-REPLAY-CASE: %s\n", js)
			if vf10Unstoppable(msg) {
				vf10Abort("TestVerifC10ScramblesuitCuts", msg+"\n  case "+string(js))
			}
			t.Fatalf("%s\n  case %s", msg, js)
		}
		evals++
		if nt[cs] {
			ntc++
		}
		c.Class("scramblesuit-cuts-"+cs.Kind, 1)
	}
	c.Bulk(evals, ntc)
	c.Class("scramblesuit-cuts", evals)
	if shard == 0 {
		c.Sample(ev.Hash("scramblesuit-cuts"), map[string]any{"stage": "scramblesuit-cuts", "cases": len(cases), "exchanges": len(vf10Exchanges)})
	}
}
