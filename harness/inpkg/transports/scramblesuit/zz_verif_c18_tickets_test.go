//go:build verif

package scramblesuit

// C18 (c): the ScrambleSuit client ticket store under crashes.
//
// The test binary re-executes itself (TestVerifC18TicketHelper, selected by
// VERIF_C18_TICKET_HELPER) under strace; the helper loads the store from the
// state directory and runs a generated storeTicket/getTicket sequence, writing
// a marker before every operation.  The recorded calls are replayed prefix by
// prefix (torn writes included) on an in-memory copy of the pre-run directory;
// on every crash state loadTicketStore and Transport.ClientFactory run
// in-process.
//
// Oracle: both return without error (a damaged store never blocks start-up);
// every loaded ticket is, for its address, the ticket the store held before or
// after the operation that was in progress at the crash (so: stored and not yet
// handed out; at worst forgotten; nothing invented).

import (
	"encoding/hex"
	"encoding/json"
	"errors"
	"fmt"
	"net"
	"os"
	"os/exec"
	"path/filepath"
	"sort"
	"strconv"
	"strings"
	"testing"
	"time"

	"pgregory.net/rapid"

	"gitlab.com/yawning/obfs4.git/internal/verifkit/crashfs"
	"gitlab.com/yawning/obfs4.git/internal/verifkit/detrand"
	"gitlab.com/yawning/obfs4.git/internal/verifkit/drive"
	"gitlab.com/yawning/obfs4.git/internal/verifkit/ev"
)

const vf18TicketHelperEnv = "VERIF_C18_TICKET_HELPER"

type vf18TicketOp struct {
	Op   string `json:"op"`   // store | get
	Addr string `json:"addr"` // ip:port
	Raw  string `json:"raw"`  // hex of key|ticket (store)
}

func (o vf18TicketOp) String() string {
	if o.Op == "store" {
		return fmt.Sprintf("store(%s,%s..)", o.Addr, o.Raw[:8])
	}
	return fmt.Sprintf("get(%s)", o.Addr)
}

type vf18TicketSpec struct {
	Dir string         `json:"dir"`
	Ops []vf18TicketOp `json:"ops"`
}

func vf18Addr(s string) net.Addr {
	host, port, _ := net.SplitHostPort(s)
	p, _ := strconv.Atoi(port)
	return &net.TCPAddr{IP: net.ParseIP(host), Port: p}
}

func vf18Inconclusive(format string, a ...any) {
	fmt.Printf("panic: test timed out (verif C18: inconclusive) - "+format+"\n", a...)
	os.Exit(2)
}

func vf18ApplyTicketOp(s *ssTicketStore, op vf18TicketOp) {
	switch op.Op {
	case "store":
		raw, _ := hex.DecodeString(op.Raw)
		s.storeTicket(vf18Addr(op.Addr), raw)
	case "get":
		_, _ = s.getTicket(vf18Addr(op.Addr))
	}
}

// TestVerifC18TicketHelper is the traced child.
func TestVerifC18TicketHelper(t *testing.T) {
	raw := os.Getenv(vf18TicketHelperEnv)
	if raw == "" {
		t.Skip("helper mode only")
	}
	detrand.Real()
	var spec vf18TicketSpec
	if err := json.Unmarshal([]byte(raw), &spec); err != nil {
		t.Fatalf("bad helper spec: %v", err)
	}
	_, _ = os.Stderr.WriteString(crashfs.MarkerPrefix + "load\n")
	s, err := loadTicketStore(spec.Dir)
	if err != nil {
		_, _ = os.Stderr.WriteString(crashfs.MarkerPrefix + "load-error\n")
		t.Fatalf("load: %v", err)
	}
	for j, op := range spec.Ops {
		_, _ = os.Stderr.WriteString(fmt.Sprintf("%sop %d\n", crashfs.MarkerPrefix, j))
		vf18ApplyTicketOp(s, op)
	}
	_, _ = os.Stderr.WriteString(crashfs.MarkerPrefix + "end\n")
}

// vf18TicketEntry is one ticket as the model sees it.
type vf18TicketEntry struct {
	raw      string // hex key|ticket
	issuedAt int64  // exact for tickets of the pre-state, 0 = "issued during the traced run"
}

type vf18TicketMap map[string]vf18TicketEntry

func (m vf18TicketMap) clone() vf18TicketMap {
	c := vf18TicketMap{}
	for k, v := range m {
		c[k] = v
	}
	return c
}

func (m vf18TicketMap) apply(op vf18TicketOp) {
	switch op.Op {
	case "store":
		m[vf18Addr(op.Addr).String()] = vf18TicketEntry{raw: strings.ToLower(op.Raw)}
	case "get":
		delete(m, vf18Addr(op.Addr).String())
	}
}

func (m vf18TicketMap) String() string {
	var ks []string
	for k, v := range m {
		ks = append(ks, fmt.Sprintf("%s=%s..", k, v.raw[:8]))
	}
	sort.Strings(ks)
	return "{" + strings.Join(ks, " ") + "}"
}

func vf18StoreContent(s *ssTicketStore) vf18TicketMap {
	m := vf18TicketMap{}
	s.Lock()
	defer s.Unlock()
	for k, t := range s.store {
		raw := append(append([]byte(nil), t.key[:]...), t.ticket[:]...)
		m[k] = vf18TicketEntry{raw: hex.EncodeToString(raw), issuedAt: t.issuedAt}
	}
	return m
}

func vf18DrawTicketOps(rt *rapid.T, label string, n int, pool []string, holding map[string]bool) []vf18TicketOp {
	var ops []vf18TicketOp
	for i := 0; i < n; i++ {
		if rapid.IntRange(0, 9).Draw(rt, label+"-kind") < 6 {
			addr := rapid.SampledFrom(pool).Draw(rt, label+"-addr")
			k := uint64(rapid.IntRange(0, 4095).Draw(rt, label+"-ticket"))
			ops = append(ops, vf18TicketOp{Op: "store", Addr: addr, Raw: hex.EncodeToString(detrand.Bytes(k, ticketKeyLength+ticketLength))})
			holding[addr] = true
			continue
		}
		// a get: mostly for an address that holds a ticket (only that rewrites the file)
		var have []string
		for _, a := range pool {
			if holding[a] {
				have = append(have, a)
			}
		}
		from := pool
		if len(have) > 0 && rapid.IntRange(0, 4).Draw(rt, label+"-hit") > 0 {
			from = have
		}
		addr := rapid.SampledFrom(from).Draw(rt, label+"-addr")
		ops = append(ops, vf18TicketOp{Op: "get", Addr: addr})
		delete(holding, addr)
	}
	return ops
}

var (
	vf18TicketStates, vf18TicketTorn int
)

func TestVerifC18CrashTickets(t *testing.T) {
	e := ev.For("C18")
	e.Rule("crash-tickets: a pre-state of 0-5 storeTicket/getTicket operations is built in-process, then the helper (re-executed test binary under strace) loads the store and runs 1-6 (thorough: 1-12) generated operations over a pool of 1-4 (thorough: 1-6) addresses (IPv4 and IPv6); crash states = every prefix of the recorded calls + torn prefixes of every write (all lengths <= 512 bytes, boundaries and a spread above; thorough: all lengths); on every crash state loadTicketStore and Transport.ClientFactory run in-process, then the client goes on with the crash residue (e.g. *.tmp) carried along: getTicket of one held address / storeTicket of a new ticket / getTicket of every held address, each followed by a reload (all three after every call boundary, one in rotation on torn states); non-trivial = crash state whose directory content differs from both the pre-run and the post-run directory; fingerprint = (pre-state, operations, call index, torn length)")
	e.Assume("crash model: the process is killed; completed system calls persist in program order; a single write may be torn at any byte; fsync is a no-op (no power loss, no reordering of completed calls)")
	e.Floor("crash-tickets-torn-write/crash-tickets", 0.5)
	for _, c := range []string{"get", "store", "get-all"} {
		e.Floor("crash-tickets-cont-"+c+"/crash-tickets", 0.10)
	}
	e.Floor("crash-tickets-traces-with-a-redeeming-get/crash-tickets-traces", 0.7)
	tornAll := ev.Thorough()
	maxOps, maxPool := 6, 4
	if tornAll {
		maxOps, maxPool = 12, 6
	}
	rapid.Check(t, func(rt *rapid.T) {
		root := ""
		if d, err := os.MkdirTemp("/dev/shm", "vf18-probe-*"); err == nil {
			os.Remove(d)
			root = "/dev/shm" // memory file system: fsync is free; nothing depends on the file system type
		}
		base, err := os.MkdirTemp(root, "vf18-tickets-*")
		if err != nil {
			vf18Inconclusive("temp dir: %v", err)
		}
		if r, err := filepath.EvalSymlinks(base); err == nil {
			base = r
		}
		defer os.RemoveAll(base)
		dir, rec := filepath.Join(base, "state"), filepath.Join(base, "recover")
		if err := os.Mkdir(dir, 0o700); err != nil {
			vf18Inconclusive("mkdir: %v", err)
		}
		pool := []string{"192.0.2.1:443", "192.0.2.1:9001", "[2001:db8::7]:443", "198.51.100.23:80", "[2001:db8::7]:9001", "203.0.113.200:65535"}[:rapid.IntRange(1, maxPool).Draw(rt, "pool")]

		// pre-state, in-process
		holding := map[string]bool{}
		preOps := vf18DrawTicketOps(rt, "pre", rapid.IntRange(0, 5).Draw(rt, "npre"), pool, holding)
		s, err := loadTicketStore(dir)
		if err != nil {
			rt.Fatalf("VIOL[c18-ticket-load-blocked]: loadTicketStore on an empty directory: %v", err)
		}
		for _, op := range preOps {
			vf18ApplyTicketOp(s, op)
		}
		model := vf18StoreContent(s)
		ops := vf18DrawTicketOps(rt, "run", rapid.IntRange(1, maxOps).Draw(rt, "nops"), pool, holding)
		// Every trace contains a getTicket that rewrites the file (redeems a held
		// ticket), if need be as an appended last operation.  (A floor on the share
		// of crash *states* inside a get is not robust: a get that leaves "{}" has
		// one torn state, a store of one ticket has 289.)
		effectiveGet := false
		{
			h := map[string]bool{}
			for a := range model {
				h[a] = true
			}
			for _, op := range ops {
				a := vf18Addr(op.Addr).String()
				if op.Op == "get" && h[a] {
					effectiveGet = true
				}
				if op.Op == "store" {
					h[a] = true
				} else {
					delete(h, a)
				}
			}
			if !effectiveGet && len(h) > 0 {
				var held []string
				for a := range h {
					held = append(held, a)
				}
				sort.Strings(held)
				ops = append(ops, vf18TicketOp{Op: "get", Addr: held[0]})
				effectiveGet = true
			}
		}
		desc := fmt.Sprintf("pre-state %v (built by %v); traced operations %v", model, preOps, ops)

		// models before/after each traced operation
		models := []vf18TicketMap{model.clone()}
		for _, op := range ops {
			m := models[len(models)-1].clone()
			m.apply(op)
			models = append(models, m)
		}

		pre, err := crashfs.Load(dir)
		if err != nil {
			vf18Inconclusive("load: %v", err)
		}
		exe, err := os.Executable()
		if err != nil {
			vf18Inconclusive("os.Executable: %v", err)
		}
		spec, _ := json.Marshal(vf18TicketSpec{Dir: dir, Ops: ops})
		cmd := exec.Command(exe, "-test.run=^TestVerifC18TicketHelper$", "-test.count=1", "-test.timeout=120s")
		cmd.Dir = base
		for _, kv := range os.Environ() {
			if strings.HasPrefix(kv, "VERIF_EVIDENCE_DIR=") || strings.HasPrefix(kv, vf18TicketHelperEnv+"=") {
				continue
			}
			cmd.Env = append(cmd.Env, kv)
		}
		cmd.Env = append(cmd.Env, vf18TicketHelperEnv+"="+string(spec))
		tBefore := time.Now().Unix()
		trace, rawTrace, out, err := crashfs.Record(cmd, dir)
		tAfter := time.Now().Unix()
		if err != nil {
			if errors.Is(err, crashfs.ErrUnavailable) {
				vf18Inconclusive("%v", err)
			}
			vf18Inconclusive("recording the helper failed: %v\noutput: %s\ntrace: %.2000s", err, out, rawTrace)
		}
		post, err := crashfs.Load(dir)
		if err != nil {
			vf18Inconclusive("load: %v", err)
		}
		preFP, postFP := pre.Fingerprint(), post.Fingerprint()
		sawEnd := false
		for _, op := range trace {
			if op.Kind == "marker" && string(op.Data) == "end" {
				sawEnd = true
			}
		}
		if !sawEnd {
			vf18Inconclusive("helper did not finish: %s", out)
		}

		// opAt[i] = index of the operation in progress once i trace entries have completed (-1: none yet, len(ops): all done)
		inProgress := func(completed int) int {
			j := -1
			for _, op := range trace[:completed] {
				if op.Kind != "marker" {
					continue
				}
				m := string(op.Data)
				if strings.HasPrefix(m, "op ") {
					j, _ = strconv.Atoi(m[3:])
				} else if m == "end" {
					j = len(ops)
				}
			}
			return j
		}

		var calls []string
		for i, op := range trace {
			calls = append(calls, fmt.Sprintf("%d:%s", i, op))
		}
		var violation string
		nstates, ntorn := 0, 0
		var lastFS *crashfs.FS
		enumErr := crashfs.Enumerate(pre, trace, tornAll, func(st crashfs.State) bool {
			nstates++
			lastFS = st.FS
			if st.Torn >= 0 {
				ntorn++
			}
			materialize := func() {
				_ = os.RemoveAll(rec)
				if err := os.Mkdir(rec, 0o700); err != nil {
					vf18Inconclusive("mkdir: %v", err)
				}
				if err := st.FS.Materialize(rec); err != nil {
					vf18Inconclusive("materialize: %v", err)
				}
			}
			materialize()
			where := func() string {
				var files []string
				for _, n := range st.FS.Names() {
					d, _, _ := st.FS.File(n)
					files = append(files, fmt.Sprintf("%s (%d bytes)", n, len(d)))
				}
				return fmt.Sprintf("crash point: %s; directory then holds: %s\n%s\nrecorded calls: %s", st.Desc, strings.Join(files, ", "), desc, strings.Join(calls, " "))
			}
			completed := st.Index // for a torn write: the calls before it
			j := inProgress(completed)
			var loaded *ssTicketStore
			res := drive.Call(60*time.Second, func() error {
				var e error
				loaded, e = loadTicketStore(rec)
				return e
			})
			if res.Failed() {
				violation = fmt.Sprintf("VIOL[c18-panic]: loadTicketStore: %s\n%s", res, where())
				return false
			}
			if res.Err != nil {
				violation = fmt.Sprintf("VIOL[c18-ticket-load-blocked]: loadTicketStore fails on the crash state, which blocks client start-up: %v\n%s", res.Err, where())
				return false
			}
			res = drive.Call(60*time.Second, func() error {
				_, e := (&Transport{}).ClientFactory(rec)
				return e
			})
			if res.Failed() || res.Err != nil {
				violation = fmt.Sprintf("VIOL[c18-ticket-load-blocked]: Transport.ClientFactory fails on the crash state: %s\n%s", res, where())
				return false
			}
			// subset oracle
			var allowed []vf18TicketMap
			switch {
			case j < 0:
				allowed = []vf18TicketMap{models[0]}
			case j >= len(ops):
				allowed = []vf18TicketMap{models[len(ops)]}
			default:
				allowed = []vf18TicketMap{models[j], models[j+1]}
			}
			for addr, got := range vf18StoreContent(loaded) {
				ok := false
				for _, m := range allowed {
					want, have := m[addr]
					if !have || want.raw != got.raw {
						continue
					}
					if want.issuedAt != 0 && want.issuedAt == got.issuedAt {
						ok = true
					}
					if want.issuedAt == 0 && got.issuedAt >= tBefore-1 && got.issuedAt <= tAfter+1 {
						ok = true
					}
				}
				if !ok {
					violation = fmt.Sprintf("VIOL[c18-ticket-invented]: after the crash the store holds for %s the ticket %s.. (issued %d), which is neither the ticket held before nor after the operation in progress (operation index %d; allowed %v)\n%s", addr, got.raw[:8], got.issuedAt, j, allowed, where())
					return false
				}
			}
			// The client's life goes on after the crash: continuations on the store,
			// with the crash residue (e.g. *.tmp) carried along exactly as the crash left
			// it; after each the store must load again, hold nothing that was handed out
			// and nothing that was not in it.
			afterCrash := vf18StoreContent(loaded)
			var addrs []string
			for a := range afterCrash {
				addrs = append(addrs, a)
			}
			sort.Strings(addrs)
			variants := []int{0, 1, 2}
			if st.Torn >= 0 {
				variants = []int{ntorn % 3}
			}
			var contCls []string
			for _, v := range variants {
				s := loaded
				if v > 0 {
					materialize()
					var lerr error
					if s, lerr = loadTicketStore(rec); lerr != nil {
						violation = fmt.Sprintf("VIOL[c18-ticket-load-blocked]: second load of the same crash state fails: %v\n%s", lerr, where())
						return false
					}
				}
				model := afterCrash.clone()
				var did []string
				switch v {
				case 0: // hand out one ticket (shrinks the file)
					a := pool[0]
					if len(addrs) > 0 {
						a = addrs[0]
					}
					op := vf18TicketOp{Op: "get", Addr: a}
					if len(addrs) > 0 {
						// addrs hold net.Addr.String() forms, which vf18Addr parses back
						op.Addr = addrs[0]
					}
					vf18ApplyTicketOp(s, op)
					delete(model, vf18Addr(op.Addr).String())
					did = append(did, op.String())
					contCls = append(contCls, "crash-tickets-cont-get")
				case 1: // store a new ticket
					op := vf18TicketOp{Op: "store", Addr: pool[(st.Index+len(addrs))%len(pool)], Raw: hex.EncodeToString(detrand.Bytes(uint64(900000+st.Index), ticketKeyLength+ticketLength))}
					vf18ApplyTicketOp(s, op)
					model.apply(op)
					did = append(did, op.String())
					contCls = append(contCls, "crash-tickets-cont-store")
				case 2: // hand out everything (the shortest possible file)
					for _, a := range addrs {
						op := vf18TicketOp{Op: "get", Addr: a}
						vf18ApplyTicketOp(s, op)
						delete(model, a)
						did = append(did, op.String())
					}
					contCls = append(contCls, "crash-tickets-cont-get-all")
				}
				ctx := fmt.Sprintf("continuation after the crash: load ; %s ; load (store held %v after the crash)", strings.Join(did, " ; "), afterCrash)
				var again *ssTicketStore
				res := drive.Call(60*time.Second, func() error {
					var e error
					again, e = loadTicketStore(rec)
					if e == nil {
						_, e = (&Transport{}).ClientFactory(rec)
					}
					return e
				})
				if res.Failed() || res.Err != nil {
					violation = fmt.Sprintf("VIOL[c18-ticket-load-blocked]: %s: the store no longer loads, which blocks client start-up: %s\n%s", ctx, res, where())
					return false
				}
				for addr, got := range vf18StoreContent(again) {
					want, have := model[addr]
					if !have || want.raw != got.raw {
						violation = fmt.Sprintf("VIOL[c18-ticket-invented]: %s: the store then holds for %s the ticket %s.., which it should not (handed out, or never stored there); expected at most %v\n%s", ctx, addr, got.raw[:8], model, where())
						return false
					}
				}
			}
			fp := st.FS.Fingerprint()
			cls := append([]string{"crash-tickets"}, contCls...)
			if st.Torn >= 0 {
				cls = append(cls, "crash-tickets-torn-write")
			}
			if j >= 0 && j < len(ops) {
				cls = append(cls, "crash-tickets-during-"+ops[j].Op)
			}
			e.Case(ev.Hash("crash-tickets", desc, st.Index, st.Torn), fp != preFP && fp != postFP, cls, func() any {
				return map[string]any{"part": "crash-tickets", "pre_state": model.String(), "operations": fmt.Sprint(ops), "crash_point": st.Desc}
			})
			return true
		})
		if violation != "" {
			rt.Fatalf("%s", violation)
		}
		if enumErr != nil {
			vf18Inconclusive("replay of the recorded calls failed: %v", enumErr)
		}
		if lastFS == nil || lastFS.Fingerprint() != postFP {
			vf18Inconclusive("replaying the trace does not reproduce the directory the helper left behind\ncalls: %s", strings.Join(calls, " "))
		}
		vf18TicketStates += nstates
		vf18TicketTorn += ntorn
		e.Class("crash-tickets-traces", 1)
		if effectiveGet {
			e.Class("crash-tickets-traces-with-a-redeeming-get", 1)
		}
		e.Set("crash_states_tickets", vf18TicketStates)
		e.Set("crash_states_tickets_torn", vf18TicketTorn)
	})
}
