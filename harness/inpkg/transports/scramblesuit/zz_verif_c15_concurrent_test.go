//go:build verif

package scramblesuit

// C15 unit "concurrent": several Dials at once against ONE stored ticket.
// "A session ticket is used for at most one handshake" is a claim over
// schedules too: however the Dials interleave inside the ticket store, the
// stored ticket may be presented by at most one of them, the others fall back
// to UniformDH, and every connection works.
//
// The overlap is made systematic from outside the code: while the Dials start,
// another connection's checkpoint of the store is kept in progress (it holds
// whatever lock the store takes for a checkpoint).  The checkpoint writes to
// `<ticket file>.tmp`; the harness pre-creates that path as a FIFO, so the
// writer blocks in open(2) until the harness opens the FIFO for reading.  All
// Dials are then queued inside the store at the same time (counted from the
// goroutine dump), and released together.
//
// In-package dependencies: ticketFile; goroutine dumps are searched for
// "ssTicketStore).getTicket" and "ssTicketStore).storeTicket".

import (
	"fmt"
	"io"
	"os"
	"path/filepath"
	"runtime"
	"strings"
	"syscall"
	"testing"
	"time"

	"pgregory.net/rapid"

	"gitlab.com/yawning/obfs4.git/internal/verifkit/detrand"
	"gitlab.com/yawning/obfs4.git/internal/verifkit/ev"
	"gitlab.com/yawning/obfs4.git/internal/verifkit/refss"
	"gitlab.com/yawning/obfs4.git/internal/verifkit/wire"
	"gitlab.com/yawning/obfs4.git/transports/base"
)

// vf15Goroutines counts the goroutines whose stack contains every one of subs.
func vf15Goroutines(subs ...string) int {
	buf := make([]byte, 4<<20)
	buf = buf[:runtime.Stack(buf, true)]
	cnt := 0
next:
	for _, g := range strings.Split(string(buf), "\n\n") {
		for _, s := range subs {
			if !strings.Contains(g, s) {
				continue next
			}
		}
		cnt++
	}
	return cnt
}

// vf15Poll samples f every millisecond until it returns at least want or d has
// passed; returns the last value.  Used only to widen a window, never for a verdict.
func vf15Poll(d time.Duration, want int, f func() int) int {
	end := time.Now().Add(d)
	for {
		v := f()
		if v >= want || time.Now().After(end) {
			return v
		}
		time.Sleep(time.Millisecond)
	}
}

// vf15ServeLink lets the reference server answer whatever handshake the client
// sent on l, then exchanges data both ways.  Returns the ticket presented (nil
// for UniformDH).
func vf15ServeLink(l *vf15Link, k uint64, tag uint64, ctx string) (*refss.Ticket, string) {
	if msg := l.readHello(); msg != "" {
		return nil, msg + " [" + ctx + "]"
	}
	if msg := l.checkHello(); msg != "" {
		return nil, msg + " [" + ctx + "]"
	}
	var shown *refss.Ticket
	if l.hello.Kind == refss.KindTicket {
		shown = l.hello.Ticket
		l.sess = refss.NewTicketSession(shown)
	} else {
		l.writeResponse(l.respond(vf15Fill(k, 0x7000+tag, refss.KeySize), tag%2 == 1, vf15Fill(k, 0x7100+tag, int(tag*37)%200)))
		if msg := l.release(l.queued); msg != "" {
			return nil, msg + " [" + ctx + "]"
		}
	}
	if msg := l.handshakeDone(ctx); msg != "" {
		return shown, msg
	}
	if msg := l.clientWrite(vf15Fill(k, 0x7200+tag, 1+int(tag)%90), nil); msg != "" {
		return shown, msg + " [" + ctx + "]"
	}
	if msg := l.upstreamComplete(ctx); msg != "" {
		return shown, msg
	}
	l.packet(refss.FlagPayload, vf15Fill(k, 0x7300+tag, 1+int(tag)%70), int(tag)%4, nil)
	return shown, l.finalCompare(ctx, false)
}

func TestVerifC15ConcurrentDials(t *testing.T) {
	if err := vf15Anchors(); err != nil {
		t.Fatalf("reference server anchors: %v", err)
	}
	c := vf15Evidence()
	c.Rule("concurrent: one client factory / state directory; per round (1..3 rounds per case, optionally a restart in between) a ticket is issued for bridge A on an ordinary connection, then G = 2..8 goroutines Dial A at once; in 3 of 4 rounds the Dials start while another connection's checkpoint of the store is kept in progress (NEW_TICKET for bridge B on a side connection, the checkpoint's staging file `scramblesuit_tickets.json.tmp` pre-created as a FIFO so that its writer blocks until the harness drains it), so that all Dials are queued inside the ticket store at the same time (counted from the goroutine dump) and released together; otherwise a plain simultaneous start; afterwards the reference server answers every connection (ticket handshake or UniformDH) and data is exchanged both ways; oracle: every 112-byte ticket is presented by at most ONE handshake over the whole history (all rounds, across restarts), the stored ticket is presented by exactly one of the Dials, every Dial completes and carries data; non-trivial = at least two Dials were inside getTicket at the same time; fingerprint = seed and round plan")
	c.Floor("concurrent-overlap>=2/concurrent-rounds", 0.50)
	c.Assume("concurrent: interleavings inside the ticket store are forced by holding a checkpoint open from outside (FIFO at the staging path) and otherwise sampled by the Go scheduler; not enumerated")
	detrand.Real()
	rapid.Check(t, func(rt *rapid.T) {
		k := rapid.Uint64().Draw(rt, "seed")
		dir, cleanup := vf15TempDir()
		defer cleanup()
		var cf base.ClientFactory
		cf, err := (&Transport{}).ClientFactory(dir)
		if err != nil {
			rt.Fatalf("ClientFactory: %v", err)
		}
		const addrA, addrB = "192.0.2.15:443", "192.0.2.16:443"
		secA, secB := vf15Secret(k, 20), vf15Secret(k, 21)
		srvA, srvB := vf15Server(secA), vf15Server(secB)
		presented := map[*refss.Ticket]string{}
		var plan []string
		fail := func(msg string) {
			if msg != "" {
				rt.Fatalf("%s\nplan: %s", msg, strings.Join(plan, " | "))
			}
		}
		note := func(tk *refss.Ticket, who string) {
			if tk == nil {
				return
			}
			if prev, dup := presented[tk]; dup {
				fail(fmt.Sprintf("VIOL[c15-ticket-reuse]: ticket #%d is presented by %s, it was already presented by %s", tk.Serial, who, prev))
			}
			presented[tk] = who
		}
		tmpPath := filepath.Join(dir, ticketFile+".tmp")
		filePath := filepath.Join(dir, ticketFile)
		rounds := rapid.IntRange(1, 3).Draw(rt, "rounds")
		maxOverlap, tag := 0, uint64(0)
		for r := 0; r < rounds; r++ {
			g := rapid.IntRange(2, 8).Draw(rt, "dials")
			trick := rapid.IntRange(0, 3).Draw(rt, "holdCheckpoint") > 0
			restart := rapid.Bool().Draw(rt, "restart")
			plan = append(plan, fmt.Sprintf("round %d: %d dials, checkpoint held=%v, restart before=%v", r, g, trick, restart))

			// a ticket for bridge A, issued on an ordinary connection
			tag++
			l0 := vf15Dial(cf, srvA, addrA, secA)
			shown, msg := vf15ServeLink(l0, k, tag, fmt.Sprintf("round %d, ticket-issuing connection", r))
			if msg != "" {
				l0.close()
				fail(msg)
			}
			note(shown, fmt.Sprintf("the ticket-issuing connection of round %d", r))
			stored := srvA.Auth.Issue(vf15Fill(k, 0x7400+tag, 16))
			l0.packet(refss.FlagNewTicket, stored.Payload(), 0, nil)
			msg = l0.finalCompare("ticket-issuing connection", false)
			l0.close()
			fail(msg)
			if restart {
				if cf, err = (&Transport{}).ClientFactory(dir); err != nil {
					rt.Fatalf("VIOL[c15-restart-failed]: %v", err)
				}
			}

			// hold a checkpoint of the store open
			var side *vf15Link
			held := false
			if trick {
				tag++
				side = vf15Dial(cf, srvB, addrB, secB)
				shownB, msg := vf15ServeLink(side, k, tag, fmt.Sprintf("round %d, side connection to bridge B", r))
				if msg != "" {
					side.close()
					fail(msg)
				}
				note(shownB, fmt.Sprintf("the side connection of round %d", r))
				_ = os.Remove(tmpPath)
				if err := syscall.Mkfifo(tmpPath, 0o600); err != nil {
					side.close()
					rt.Fatalf("harness: mkfifo %s: %v", tmpPath, err)
				}
				side.packet(refss.FlagNewTicket, srvB.Auth.Issue(vf15Fill(k, 0x7500+tag, 16)).Payload(), 0, nil)
				side.n.Release(wire.B, side.n.Pending(wire.B)) // no quiescence: the client is about to block in the checkpoint
				held = vf15Poll(2*time.Second, 1, func() int { return vf15Goroutines("ssTicketStore).storeTicket", "os.OpenFile") }) >= 1
				if !held {
					_ = os.Remove(tmpPath) // the checkpoint does not go through this path (any more)
					c.Class("concurrent-checkpoint-not-held", 1)
				}
			}

			// G Dials at once
			links := make([]*vf15Link, g)
			for i := range links {
				links[i] = vf15Dial(cf, srvA, addrA, secA)
			}
			closeAll := func() {
				for _, l := range links {
					l.close()
				}
				if side != nil {
					side.close()
				}
			}
			overlap := 0
			if held {
				overlap = vf15Poll(2*time.Second, g, func() int { return vf15Goroutines("ssTicketStore).getTicket") })
				// release: drain the FIFO, the held checkpoint finishes (its fsync of
				// a FIFO fails; storeTicket ignores checkpoint errors) and lets go of the lock
				f, err := os.OpenFile(tmpPath, os.O_RDONLY, 0)
				if err != nil {
					closeAll()
					rt.Fatalf("harness: open fifo: %v", err)
				}
				_, _ = io.Copy(io.Discard, f)
				_ = f.Close()
			} else {
				overlap = vf15Goroutines("ssTicketStore).getTicket")
			}
			if overlap > maxOverlap {
				maxOverlap = overlap
			}
			c.Class("concurrent-rounds", 1)
			if overlap >= 2 {
				c.Class("concurrent-overlap>=2", 1)
			}
			if overlap >= g {
				c.Class("concurrent-all-dials-inside-the-store", 1)
			}

			// the reference server answers every connection
			var users []string
			for i, l := range links {
				tag++
				who := fmt.Sprintf("Dial %d of %d in round %d", i, g, r)
				shown, msg := vf15ServeLink(l, k, tag, who)
				if msg != "" {
					closeAll()
					fail(msg)
				}
				if shown != nil {
					if shown == stored {
						users = append(users, who)
					} else {
						closeAll()
						note(shown, who)
						fail(fmt.Sprintf("VIOL[c15-ticket-mismatch]: %s presents ticket #%d, the store held #%d", who, shown.Serial, stored.Serial))
					}
				}
			}
			if side != nil {
				msg := side.quiesce()
				if msg == "" {
					msg = side.checkDelivery("side connection after its checkpoint was released")
				}
				if msg != "" {
					closeAll()
					fail(msg)
				}
			}
			closeAll()
			if len(users) > 1 {
				fail(fmt.Sprintf("VIOL[c15-ticket-reuse]: ticket #%d was presented by %d concurrent handshakes (%s); %d Dials were inside the ticket store at the same time", stored.Serial, len(users), strings.Join(users, "; "), overlap))
			}
			if len(users) == 0 {
				fail(fmt.Sprintf("VIOL[c15-ticket-not-used]: round %d: the store held the valid ticket #%d, none of the %d Dials presented it", r, stored.Serial, g))
			}
			note(stored, users[0])
			// the staging path must not stay a FIFO, the ticket file must not become one
			for _, p := range []string{tmpPath, filePath} {
				if fi, err := os.Lstat(p); err == nil && fi.Mode()&os.ModeNamedPipe != 0 {
					_ = os.Remove(p)
					c.Class("concurrent-fifo-left-behind", 1)
				}
			}
		}
		cls := []string{"concurrent"}
		c.Case(ev.Hash(k, strings.Join(plan, "|")), maxOverlap >= 2, cls, func() any {
			return map[string]any{"seed": k, "plan": plan, "max_dials_inside_the_store": maxOverlap}
		})
	})
}
