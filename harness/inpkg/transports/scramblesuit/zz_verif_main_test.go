//go:build verif

package scramblesuit

import (
	"testing"

	"gitlab.com/yawning/obfs4.git/common/csrand"
	"gitlab.com/yawning/obfs4.git/internal/verifkit/detrand"
	"gitlab.com/yawning/obfs4.git/internal/verifkit/ev"
)

func TestMain(m *testing.M) {
	// csrand.Reader was copied from crypto/rand.Reader at init; point it at the
	// switchable stream too (real randomness unless a test seeds it).
	csrand.Reader = detrand.Reader()
	ev.Main(m)
}
