//go:build verif

package scramblesuit

// C15 unit "freerun": the same client against the reference server running in
// its own goroutine behind the net.Conn front end of refss, on the free-running
// wire (every write is cut into random segments at once).  Reader and writer
// of the client run concurrently; thorough builds this unit with -race.  The
// oracle is schedule independent: both streams are equal at the end.

import (
	"bytes"
	"fmt"
	"io"
	"net"
	"sync"
	"sync/atomic"
	"testing"
	"time"

	pt "gitlab.torproject.org/tpo/anti-censorship/pluggable-transports/goptlib"
	"pgregory.net/rapid"

	"gitlab.com/yawning/obfs4.git/internal/verifkit/detrand"
	"gitlab.com/yawning/obfs4.git/internal/verifkit/drive"
	"gitlab.com/yawning/obfs4.git/internal/verifkit/ev"
	"gitlab.com/yawning/obfs4.git/internal/verifkit/refss"
	"gitlab.com/yawning/obfs4.git/internal/verifkit/wire"
)

func TestVerifC15FreeRun(t *testing.T) {
	if err := vf15Anchors(); err != nil {
		t.Fatalf("reference server anchors: %v", err)
	}
	c := vf15Evidence()
	c.Rule("freerun: free-running wire (random segmentation by a seeded PRNG), reference server in its own goroutine through refss.Accept/Serve on the net.Conn, client reader and writer concurrent; two connections per case on one factory, the second uses the ticket issued on the first when one was issued; generated: padding, write sizes both ways, packet padding, ticket/seed packets; oracle: at the final quiescence (server silent after its flight, client application done writing, client reader parked) everything the server sent has been delivered and the NEW_TICKET is in the store, without any further traffic; both streams equal at EOF; every case counts as non-trivial only if the second connection used a ticket; fingerprint = generated plan")
	detrand.Real()
	rapid.Check(t, func(rt *rapid.T) {
		k := rapid.Uint64().Draw(rt, "seed")
		secret := vf15Secret(k, 0)
		srv := vf15Server(secret)
		dir, cleanup := vf15TempDir()
		defer cleanup()
		cf, err := (&Transport{}).ClientFactory(dir)
		if err != nil {
			rt.Fatalf("ClientFactory: %v", err)
		}
		issue := rapid.IntRange(0, 3).Draw(rt, "issueTicket") > 0
		var issued *refss.Ticket
		var plan []string
		for connNo := 0; connNo < 2; connNo++ {
			pad := vf15DrawPad(rt, "pad")
			cw := rapid.SliceOfN(rapid.IntRange(0, 3000), 1, 5).Draw(rt, "clientWrites")
			sw := rapid.SliceOfN(rapid.IntRange(0, refss.MaxPayload), 0, 6).Draw(rt, "serverPackets")
			wantKind := refss.KindUniformDH
			if connNo == 1 && issued != nil {
				wantKind = refss.KindTicket
			}
			plan = append(plan, fmt.Sprintf("conn%d pad=%d cw=%v sw=%v kind=%v", connNo, pad, cw, sw, wantKind))
			var cAll, sAll []byte
			for i, n := range cw {
				cAll = append(cAll, vf15Fill(k, uint64(0x100*connNo+i), n)...)
			}
			if len(cAll) == 0 {
				cAll = []byte{0x15}
				cw = append(cw, 1)
			}
			for i, n := range sw {
				sAll = append(sAll, vf15Fill(k, uint64(0x1000+0x100*connNo+i), n)...)
			}
			n := wire.NewFree(k + uint64(connNo) + 1)
			var newTicket *refss.Ticket
			if connNo == 0 && issue {
				newTicket = srv.Auth.Issue(vf15Fill(k, 0x77, 16))
			}

			writerDone := make(chan struct{})
			srvIdleCh, clientChecked := make(chan struct{}), make(chan struct{})
			var idleOnce sync.Once
			srvIdle := func() { idleOnce.Do(func() { close(srvIdleCh) }) }
			var wdOnce sync.Once
			closeWriterDone := func() { wdOnce.Do(func() { close(writerDone) }) }
			// ---- server goroutine
			var srvErr error
			var gotKind refss.Kind
			var sess *refss.Session
			var wg sync.WaitGroup
			wg.Add(1)
			go func() {
				defer wg.Done()
				defer srvIdle()
				conn := n.Conn(wire.B)
				defer conn.Close()
				h, rest, err := srv.Accept(conn)
				if err != nil {
					srvErr = fmt.Errorf("accept: %w (kind %v, mark found %v)", err, h.Kind, h.MarkFound)
					return
				}
				gotKind = h.Kind
				var out []byte
				if h.Kind == refss.KindTicket {
					if h.Ticket != issued || h.PriorSeen != 0 {
						srvErr = fmt.Errorf("ticket #%d presented (seen %d times before), expected the one just issued", h.Ticket.Serial, h.PriorSeen)
						return
					}
					sess = refss.NewTicketSession(h.Ticket)
				} else {
					sess = srv.NewUDHSession(vf15Fill(k, 0x55+uint64(connNo), refss.KeySize), pad%2 == 0, h.X, h.EpochHour)
					out = sess.Response(vf15Fill(k, 0x66, pad))
				}
				off := 0
				for i, m := range sw {
					out = append(out, sess.Packet(refss.FlagPayload, sAll[off:off+m], (i*37)%(refss.MaxPayload-m+1))...)
					off += m
					if i == 1 {
						out = append(out, sess.Packet(refss.FlagPrngSeed, vf15Fill(k, 0x88, refss.SeedLen), 5)...)
					}
				}
				if newTicket != nil {
					out = append(out, sess.Packet(refss.FlagNewTicket, newTicket.Payload(), 0)...)
				}
				if _, err := conn.Write(out); err != nil {
					srvErr = fmt.Errorf("write: %w", err)
					return
				}
				if err := sess.Feed(rest); err != nil {
					srvErr = err
					return
				}
				consumed := int64(len(rest)) + int64(h.Consumed)
				buf := make([]byte, 4096)
				readSome := func() bool {
					m, err := conn.Read(buf)
					consumed += int64(m)
					if ferr := sess.Feed(buf[:m]); ferr != nil {
						srvErr = ferr
						return false
					}
					if err != nil {
						srvErr = fmt.Errorf("read after %d of %d payload bytes: %w", len(sess.Rx), len(cAll), err)
						return false
					}
					return true
				}
				for len(sess.Rx) < len(cAll) {
					if !readSome() {
						return
					}
				}
				// when the client application has finished writing, parse the rest
				// (trailing padding); the server sends nothing more.  It closes only
				// after the harness has looked at the client at quiescence: an EOF
				// would make the client process whatever it has left unprocessed.
				<-writerDone
				for consumed < n.Written(wire.A) {
					if !readSome() {
						return
					}
				}
				if sess.Buffered() != 0 {
					srvErr = fmt.Errorf("%d trailing bytes from the client do not form a packet", sess.Buffered())
				}
				srvIdle()
				<-clientChecked
			}()

			// ---- client
			var fired atomic.Bool
			watchdog := time.AfterFunc(wire.WatchdogDefault, func() { fired.Store(true); n.Shutdown() })
			var conn net.Conn
			res := drive.Call(90*time.Second, func() error {
				args := &pt.Args{}
				args.Add("password", vf15Password(secret))
				parsed, err := cf.ParseArgs(args)
				if err != nil {
					return err
				}
				conn, err = cf.Dial("tcp", "192.0.2.15:443", func(network, address string) (net.Conn, error) {
					return &vf15Conn{Conn: n.Conn(wire.A), remote: vf15Addr(address)}, nil
				}, parsed)
				return err
			})
			var wres, rres drive.Result
			var got []byte
			var gmu sync.Mutex
			var stalled, ticketStalled string
			if !res.Failed() && res.Err == nil {
				var cwg sync.WaitGroup
				cwg.Add(1)
				go func() {
					defer cwg.Done()
					defer closeWriterDone()
					wres = drive.Call(90*time.Second, func() error {
						off := 0
						for _, m := range cw {
							if _, err := conn.Write(cAll[off : off+m]); err != nil {
								return err
							}
							off += m
						}
						return nil
					})
				}()
				readerDone := make(chan struct{})
				go func() {
					defer close(readerDone)
					rres = drive.Call(90*time.Second, func() error {
						buf := make([]byte, 4096)
						for {
							m, err := conn.Read(buf)
							gmu.Lock()
							got = append(got, buf[:m]...)
							gmu.Unlock()
							if err == io.EOF {
								return nil
							}
							if err != nil {
								return err
							}
						}
					})
				}()
				cwg.Wait()
				<-srvIdleCh
				// Final quiescence: the server has written everything (the free-running
				// wire released it at once) and is silent, the client application has
				// finished writing, the client's reader is parked in the network read
				// with nothing deliverable.  Everything the server sent must have been
				// delivered and a NEW_TICKET must be in the store — nothing more will
				// arrive to make the client look at its buffer again.
				qch := make(chan error, 1)
				go func() { qch <- n.WaitQuiescent(wire.A) }()
				select {
				case qerr := <-qch:
					if qerr == nil {
						gmu.Lock()
						have := len(got)
						gmu.Unlock()
						if have != len(sAll) {
							stalled = fmt.Sprintf("VIOL[c15-stream-stalled]: connection %d: the server has sent %d payload bytes in %d stream bytes and is silent, all of it has been read off the wire (%d bytes), the client has delivered %d and is parked in the network read",
								connNo, len(sAll), n.Written(wire.B), n.Consumed(wire.B), have)
						}
						if newTicket != nil {
							st := cf.(*ssClientFactory).ticketStore
							st.Lock()
							t := st.store["192.0.2.15:443"]
							ok := t != nil && bytes.Equal(t.ticket[:], newTicket.Blob[:]) && bytes.Equal(t.key[:], newTicket.Master[:])
							st.Unlock()
							if !ok {
								ticketStalled = fmt.Sprintf("VIOL[c15-ticket-stalled]: connection %d: the NEW_TICKET packet has been read off the wire and the client is parked in the network read, but the ticket is not in the store", connNo)
							}
						}
					}
				case <-readerDone:
				}
				close(clientChecked)
				<-readerDone
				_ = conn.Close()
			} else {
				n.Shutdown()
				closeWriterDone()
				close(clientChecked)
			}
			wg.Wait()
			watchdog.Stop()
			n.Shutdown()
			fail := func(format string, a ...any) {
				rt.Fatalf("%s\nplan: %v\nserver: %v", fmt.Sprintf(format, a...), plan, srvErr)
			}
			switch {
			case res.Panic != nil || wres.Panic != nil || rres.Panic != nil:
				fail("VIOL[c15-panic]: Dial: %s; Read: %s; Write: %s", res.String(), rres.String(), wres.String())
			case fired.Load() || res.TimedOut || wres.TimedOut || rres.TimedOut:
				fail("VIOL[c15-wedge]: connection %d did not finish within the watchdog time; Dial: %s; Read: %s; Write: %s", connNo, res.String(), rres.String(), wres.String())
			case res.Err != nil:
				fail("VIOL[c15-handshake-rejected]: free-running Dial failed against the conforming server: %v", res.Err)
			case srvErr != nil:
				fail("VIOL[c15-upstream]: reference server: %v (client Write: %v, Read: %v after %d bytes)", srvErr, wres.Err, rres.Err, len(got))
			case wres.Err != nil:
				fail("VIOL[c15-write-error]: client Write failed: %v", wres.Err)
			case rres.Err != nil:
				fail("VIOL[c15-read-error]: client Read failed on an unmodified stream after %d bytes: %v", len(got), rres.Err)
			case stalled != "":
				fail("%s", stalled)
			case ticketStalled != "":
				fail("%s", ticketStalled)
			case !bytes.Equal(got, sAll):
				fail("VIOL[c15-stream-short]: client read %d bytes up to EOF, server sent %d, first difference at %d", len(got), len(sAll), vf15FirstDiff(got, sAll))
			}
			if gotKind != wantKind {
				rt.Fatalf("VIOL[c15-handshake-kind]: connection %d used %v, expected %v\nplan: %v", connNo, gotKind, wantKind, plan)
			}
			if !bytes.Equal(sess.Rx, cAll) {
				rt.Fatalf("VIOL[c15-upstream]: server decoded %d bytes, client wrote %d\nplan: %v", len(sess.Rx), len(cAll), plan)
			}
			if newTicket != nil {
				issued = newTicket // seen in the store at the final quiescence
			}
		}
		usedTicket := issued != nil
		cls := []string{"freerun"}
		if usedTicket {
			cls = append(cls, "freerun-ticket")
		}
		c.Case(ev.Hash(k, fmt.Sprint(plan)), usedTicket, cls, func() any {
			return map[string]any{"seed": k, "plan": plan}
		})
	})
}
