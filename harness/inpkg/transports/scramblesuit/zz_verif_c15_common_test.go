//go:build verif

package scramblesuit

// C15 — ScrambleSuit client against the reference server (verifkit/refss).
// This file holds the plumbing shared by the three units: a dialled client on
// the gated wire, the reference server driven synchronously by the harness,
// and the per-step oracles.  All decisions are taken at quiescence of the
// client goroutine; nothing waits on the wall clock (the client has no timers
// besides the 60 s handshake deadline, which the wire virtualises).

import (
	"bytes"
	"encoding/base32"
	"errors"
	"fmt"
	"io"
	"net"
	"os"
	"sync"

	pt "gitlab.torproject.org/tpo/anti-censorship/pluggable-transports/goptlib"

	"gitlab.com/yawning/obfs4.git/common/drbg"
	"gitlab.com/yawning/obfs4.git/common/probdist"
	"gitlab.com/yawning/obfs4.git/internal/verifkit/detrand"
	"gitlab.com/yawning/obfs4.git/internal/verifkit/drive"
	"gitlab.com/yawning/obfs4.git/internal/verifkit/ev"
	"gitlab.com/yawning/obfs4.git/internal/verifkit/refss"
	"gitlab.com/yawning/obfs4.git/internal/verifkit/wire"
	"gitlab.com/yawning/obfs4.git/transports/base"
)

var (
	vf15AnchorOnce sync.Once
	vf15AnchorErr  error
)

// vf15Anchors checks the reference server against its external anchors once
// per process; a broken reference must never be mistaken for a client defect.
func vf15Anchors() error {
	vf15AnchorOnce.Do(func() { vf15AnchorErr = refss.SelfTest() })
	return vf15AnchorErr
}

func vf15Evidence() *ev.Collector {
	c := ev.For("C15")
	c.Assume("the reference server verifkit/refss is the conforming peer: it implements the deployed format as described in C15 (anchors: RFC 5869 case 1, RFC 4231 case 2, RFC 3526 group 5 is a safe prime, UniformDH agreement in all X/p-X combinations, packet codec round trip against longhand code)")
	c.Assume("stdlib SHA-256, HMAC, AES-CTR and math/big are trusted")
	c.Assume("a conforming server accepts the client's epoch hour when it is its own hour or one off, and echoes it in MAC_S")
	c.Assume("liveness is decided at quiescence of the client goroutine on a wire whose every input is owned by the harness: the driver's reader loops on Read, so once it is parked in the network read whatever has arrived in complete packets must have been delivered (payload), stored (NEW_TICKET) or applied (PRNG_SEED; compared through probdist.New of the same seed)")
	c.Assume("wrong shared secret / tampered response are claimed for the UniformDH handshake only: the ticket handshake has no server response and does not use the shared secret")
	return c
}

// vf15Addr / vf15Conn give the dialled connection the bridge address as its
// RemoteAddr (the ticket store is keyed by it), like a TCP connection would.
type vf15Addr string

func (a vf15Addr) Network() string { return "tcp" }
func (a vf15Addr) String() string  { return string(a) }

type vf15Conn struct {
	net.Conn
	remote vf15Addr
}

func (c *vf15Conn) RemoteAddr() net.Addr { return c.remote }

func vf15Password(secret []byte) string { return base32.StdEncoding.EncodeToString(secret) }

// vf15Pkt records one packet the reference server queued towards the client.
type vf15Pkt struct {
	end     int // offset in the server->client stream where the packet ends
	cum     int // payload bytes delivered once the packet is complete
	corrupt bool
	flags   byte
	ctl     []byte // payload of a NEW_TICKET / PRNG_SEED packet
}

// vf15Link is one connection attempt: real client on side A, reference server
// (driven by the harness goroutine) on side B.
type vf15Link struct {
	n    *wire.Net
	ep   *drive.Endpoint
	srv  *refss.Server
	addr string

	blob     []byte // the client's first flight
	hello    *refss.Hello
	helloErr error
	sess     *refss.Session

	respLen   int       // bytes of the server response at the head of the B stream
	queued    int       // bytes written into the B stream so far
	pkts      []vf15Pkt // packets in the B stream
	sent      []byte    // payload the server has put into packets, in order
	corrupted bool      // a deliberately modified packet is in the stream
	tampered  bool      // the response was modified / the secret is wrong
	wrote     []byte    // payload the client application has written
	ctlNext   int       // first packet whose control effect has not been checked yet
	samples   []int     // when the length distribution is steered: the lengths the next Write can sample

	corruptEnd       int  // stream offset at which the modified packet ends
	corruptDecidable bool // the receiver can decide once that packet has arrived completely
}

// setCorrupt records where the packet just queued with one inverted bit ends
// and whether the modification is decidable as soon as the packet has arrived
// completely: always for a flip in the MAC or the body (the header is intact,
// so the length is known); for a flip in the header unless it turns a 0 into a
// 1 in the total-length field and the new length is still legal (then the
// receiver has to wait for total' - total more bytes, and an EOF instead is
// indistinguishable from a connection cut inside a packet).
func (l *vf15Link) setCorrupt(region refss.Region, bit, total int) {
	l.corruptEnd = l.queued
	l.corruptDecidable = true
	if region == refss.RegionHeader && bit < 16 {
		if t2 := total ^ (1 << uint(15-bit)); t2 > total && t2 <= refss.MaxPayload {
			l.corruptDecidable = false
		}
	}
}

// steer narrows the client's length distribution to {v, v+1} for the next
// Write (in-package: ssConn.lenDist) and returns the function that restores it.
func (l *vf15Link) steer(v int, seed uint64) func() {
	ss, ok := l.ep.Conn().(*ssConn)
	if !ok || v < minLenDistLength || v+1 > maxLenDistLength {
		return func() {}
	}
	sd, err := drbg.SeedFromBytes(vf15Fill(seed, 0x57ee, drbg.SeedLength))
	if err != nil {
		return func() {}
	}
	old := ss.lenDist
	ss.lenDist = probdist.New(sd, v, v+1, true)
	l.samples = []int{v, v + 1}
	return func() { ss.lenDist, l.samples = old, nil }
}

// vf15Dial starts the real client: ParseArgs + Dial through the public factory
// with a dial function that returns side A of a fresh gated wire.
func vf15Dial(cf base.ClientFactory, srv *refss.Server, addr string, secret []byte) *vf15Link {
	n := wire.New()
	l := &vf15Link{n: n, srv: srv, addr: addr}
	l.ep = drive.Start(n, wire.A, func() (net.Conn, error) {
		args := &pt.Args{}
		args.Add("password", vf15Password(secret))
		parsed, err := cf.ParseArgs(args)
		if err != nil {
			return nil, fmt.Errorf("ParseArgs: %w", err)
		}
		return cf.Dial("tcp", addr, func(network, address string) (net.Conn, error) {
			return &vf15Conn{Conn: n.Conn(wire.A), remote: vf15Addr(address)}, nil
		}, parsed)
	})
	return l
}

func (l *vf15Link) close() {
	if c := l.ep.Conn(); c != nil {
		_ = c.Close()
	}
	l.n.Shutdown()
}

// quiesce waits until the client goroutine is parked with nothing deliverable
// or has finished, and reports a panic of the code under test.
func (l *vf15Link) quiesce() string {
	if err := l.n.WaitQuiescent(wire.A); err != nil {
		return fmt.Sprintf("VIOL[c15-wedge]: client neither parked nor finished: %v", err)
	}
	if p, st := l.ep.Panic(); p != nil {
		return fmt.Sprintf("VIOL[c15-panic]: client goroutine panicked: %v\n%s", p, st)
	}
	return ""
}

// take removes and returns everything the client has written to the wire.
func (l *vf15Link) take() []byte {
	b := l.n.PendingBytes(wire.A)
	l.n.SetPending(wire.A, nil)
	return b
}

// readHello waits for the client's first flight and lets the reference server
// parse it.
func (l *vf15Link) readHello() string {
	if msg := l.quiesce(); msg != "" {
		return msg
	}
	l.blob = l.take()
	l.hello, l.helloErr = l.srv.ParseHello(l.blob)
	return ""
}

// checkHello demands that the conforming server understood the client.
func (l *vf15Link) checkHello() string {
	if l.ep.SetupDone() && l.ep.SetupErr() != nil && len(l.blob) == 0 {
		return fmt.Sprintf("VIOL[c15-dial-error]: Dial failed before sending anything: %v", l.ep.SetupErr())
	}
	if l.helloErr != nil {
		return fmt.Sprintf("VIOL[c15-client-hello]: the conforming server cannot parse the client's handshake (%d bytes, kind=%v markFound=%v padLen=%d): %v; first bytes %s",
			len(l.blob), l.hello.Kind, l.hello.MarkFound, l.hello.PadLen, l.helloErr, ev.Hex(l.blob))
	}
	if l.hello.Consumed != len(l.blob) {
		return fmt.Sprintf("VIOL[c15-client-hello]: %d bytes follow the client's %v handshake of %d bytes before the server has answered", len(l.blob)-l.hello.Consumed, l.hello.Kind, l.hello.Consumed)
	}
	return ""
}

// respond computes the server's half of a UniformDH handshake and returns the
// response (not yet written to the wire).
func (l *vf15Link) respond(priv []byte, alt bool, pad []byte) []byte {
	hour := l.hello.EpochHour
	if !l.hello.MACValid {
		hour = l.srv.Hour()
	}
	l.sess = l.srv.NewUDHSession(priv, alt, l.hello.X, hour)
	return l.sess.Response(pad)
}

// write appends raw bytes to the server->client stream (pending until released).
func (l *vf15Link) write(b []byte) {
	if len(b) == 0 {
		return
	}
	_, _ = l.n.Conn(wire.B).Write(b)
	l.queued += len(b)
}

// writeResponse queues the response.
func (l *vf15Link) writeResponse(resp []byte) {
	l.write(resp)
	l.respLen = len(resp)
}

// packet encodes a packet, optionally corrupts one bit, queues it and does the
// bookkeeping for the delivery oracles.
func (l *vf15Link) packet(flags byte, payload []byte, pad int, corrupt func(pkt []byte) []byte) {
	pkt := l.sess.Packet(flags, payload, pad)
	if corrupt != nil {
		pkt = corrupt(pkt)
		l.corrupted = true
	}
	l.write(pkt)
	if flags == refss.FlagPayload {
		l.sent = append(l.sent, payload...)
	}
	p := vf15Pkt{end: l.queued, cum: len(l.sent), corrupt: corrupt != nil, flags: flags}
	if flags != refss.FlagPayload {
		p.ctl = append([]byte(nil), payload...)
	}
	l.pkts = append(l.pkts, p)
}

// arrived returns the number of payload bytes carried by packets that lie
// completely inside the released part of the stream.
func (l *vf15Link) arrived() int {
	rel := int(l.n.Released(wire.B))
	cum := 0
	for _, p := range l.pkts {
		if p.end > rel {
			break
		}
		cum = p.cum
	}
	return cum
}

// release hands the next k bytes of the server->client stream to the client as
// one segment and waits for quiescence.
func (l *vf15Link) release(k int) string {
	l.n.Release(wire.B, k)
	if msg := l.quiesce(); msg != "" {
		return msg
	}
	return l.checkControl()
}

// intact reports whether the connection is established over an unmodified
// stream: Dial has returned nil, nothing was tampered with, no Read error.
func (l *vf15Link) intact() bool {
	return !l.corrupted && !l.tampered && l.ep.SetupDone() && l.ep.SetupErr() == nil && l.ep.ReadErr() == nil
}

// checkControl is called at quiescence: a NEW_TICKET packet that has arrived
// completely must be in the ticket store, a PRNG_SEED packet must have reset
// the length distribution (the client's reader loops on Read and is parked, so
// nothing else can make it process them later).  Looks at the packets that
// became complete since the last call.
func (l *vf15Link) checkControl() string {
	if !l.intact() {
		return ""
	}
	ss, ok := l.ep.Conn().(*ssConn)
	if !ok {
		return ""
	}
	rel := int(l.n.Released(wire.B))
	var ticket, seed []byte
	for l.ctlNext < len(l.pkts) && l.pkts[l.ctlNext].end <= rel {
		switch p := l.pkts[l.ctlNext]; p.flags {
		case refss.FlagNewTicket:
			ticket = p.ctl
		case refss.FlagPrngSeed:
			seed = p.ctl
		}
		l.ctlNext++
	}
	if ticket != nil {
		ss.ticketStore.Lock()
		t := ss.ticketStore.store[l.addr]
		stored := t != nil && bytes.Equal(t.key[:], ticket[:ticketKeyLength]) && bytes.Equal(t.ticket[:], ticket[ticketKeyLength:])
		ss.ticketStore.Unlock()
		if !stored {
			return fmt.Sprintf("VIOL[c15-ticket-stalled]: a NEW_TICKET packet has arrived completely (%d of %d stream bytes released, response %d bytes) and the client is parked, but the ticket store for %s does not hold that ticket (holds one: %v)", rel, l.queued, l.respLen, l.addr, t != nil)
		}
	}
	if seed != nil {
		sd, err := drbg.SeedFromBytes(seed)
		if err != nil {
			return "harness: " + err.Error()
		}
		if want := probdist.New(sd, minLenDistLength, maxLenDistLength, true).String(); ss.lenDist.String() != want {
			return fmt.Sprintf("VIOL[c15-seed-stalled]: a PRNG_SEED packet has arrived completely (%d of %d stream bytes released, response %d bytes) and the client is parked, but its length distribution is not the one of that seed", rel, l.queued, l.respLen)
		}
	}
	return ""
}

// handshakeDone demands that Dial has returned successfully; called at
// quiescence once the complete response has been released.
func (l *vf15Link) handshakeDone(ctx string) string {
	if !l.ep.SetupDone() {
		return fmt.Sprintf("VIOL[c15-handshake-stuck]: %s: the complete response (%d bytes) has been delivered and the client is parked, but Dial has not returned", ctx, l.respLen)
	}
	if err := l.ep.SetupErr(); err != nil {
		return fmt.Sprintf("VIOL[c15-handshake-rejected]: %s: Dial failed against a conforming response: %v", ctx, err)
	}
	return ""
}

// checkDelivery is the step oracle of the server->client direction, called at
// quiescence: never anything but a prefix of what the server sent, never more
// than has arrived, no error on an unmodified stream, and — once Dial has
// returned, on an unmodified stream — everything that has arrived in complete
// packets has been delivered: the reader loops on Read and is parked in the
// network read, so whatever is complete and undelivered now stays undelivered
// unless more traffic arrives.
func (l *vf15Link) checkDelivery(ctx string) string {
	got := l.ep.Got()
	if len(got) > len(l.sent) || !bytes.Equal(got, l.sent[:len(got)]) {
		return fmt.Sprintf("VIOL[c15-stream-altered]: %s: client delivered %d bytes that are not a prefix of the %d bytes the server sent (first difference at %d)", ctx, len(got), len(l.sent), vf15FirstDiff(got, l.sent))
	}
	if a := l.arrived(); len(got) > a {
		return fmt.Sprintf("VIOL[c15-stream-early]: %s: client delivered %d bytes, only %d have arrived in complete packets", ctx, len(got), a)
	}
	if err := l.ep.ReadErr(); err != nil && !l.corrupted {
		return fmt.Sprintf("VIOL[c15-read-error]: %s: Read failed on an unmodified stream after %d bytes: %v", ctx, len(got), err)
	}
	if l.corrupted && l.corruptDecidable && l.corruptEnd > 0 && int(l.n.Released(wire.B)) >= l.corruptEnd && l.ep.SetupDone() && l.ep.SetupErr() == nil {
		// the modified packet has arrived completely and the reader is parked (or
		// has given up): the modification must have been reported, without any
		// further traffic, and not as a clean end of stream
		switch err := l.ep.ReadErr(); {
		case err == nil:
			return fmt.Sprintf("VIOL[c15-corruption-undetected]: %s: the packet with one inverted bit has arrived completely (%d of %d stream bytes released, it ends at %d), the client has delivered %d bytes and reports no error", ctx, l.n.Released(wire.B), l.queued, l.corruptEnd, len(got))
		case errors.Is(err, io.EOF):
			return fmt.Sprintf("VIOL[c15-corruption-undetected]: %s: the packet with one inverted bit has arrived completely (it ends at %d of %d stream bytes), the client has delivered %d bytes and reports a clean end of stream (%v) instead of the modification", ctx, l.corruptEnd, l.queued, len(got), err)
		}
	}
	if l.intact() {
		if a := l.arrived(); len(got) != a {
			return fmt.Sprintf("VIOL[c15-stream-stalled]: %s: %d payload bytes have arrived in complete packets (%d of %d stream bytes released, response %d bytes), the client has delivered %d and is parked in the network read", ctx, a, l.n.Released(wire.B), l.queued, l.respLen, len(got))
		}
	}
	return l.checkControl()
}

// finalCompare releases everything and demands exact equality at quiescence.
// With alsoFlush an empty packet follows and equality is demanded again (the
// ending the check used while it did not claim delivery without more traffic).
func (l *vf15Link) finalCompare(ctx string, alsoFlush bool) string {
	for round := 0; round < 2; round++ {
		if msg := l.release(l.n.Pending(wire.B)); msg != "" {
			return msg
		}
		if msg := l.checkDelivery(ctx); msg != "" {
			return msg
		}
		if got := l.ep.Got(); !bytes.Equal(got, l.sent) {
			return fmt.Sprintf("VIOL[c15-stream-short]: %s: everything was released, client delivered %d of %d bytes", ctx, len(got), len(l.sent))
		}
		if !alsoFlush || round == 1 {
			break
		}
		l.packet(refss.FlagPayload, nil, 0, nil)
	}
	return ""
}

// clientWrite performs conn.Write(b) on the client, feeds the ciphertext to
// the reference server in the given chunking and compares the streams.
func (l *vf15Link) clientWrite(b []byte, chunks []int) string {
	res, k, _ := l.ep.Write(b)
	if res.Failed() {
		return fmt.Sprintf("VIOL[c15-panic]: client Write(%d bytes): %s", len(b), res.String())
	}
	if res.Err != nil || k != len(b) {
		return fmt.Sprintf("VIOL[c15-write-error]: client Write(%d bytes) = %d, %v", len(b), k, res.Err)
	}
	l.wrote = append(l.wrote, b...)
	ct := l.take()
	if len(l.samples) > 0 {
		// the burst must end `sampled length` bytes into a 1448-byte segment; where
		// fewer than 21 bytes were missing, one header short is the deployed behaviour
		full := (len(b)+maxPayloadLength-1)/maxPayloadLength*pktOverhead + len(b)
		end, ok := len(ct)%maxSegmentLength, false
		for _, v := range l.samples {
			gap := ((v-full)%maxSegmentLength + maxSegmentLength) % maxSegmentLength
			if end == v%maxSegmentLength || gap < pktOverhead && end == (v-pktOverhead)%maxSegmentLength {
				ok = true
			}
		}
		if !ok {
			return fmt.Sprintf("VIOL[c15-padburst-length]: client Write(%d bytes) = %d bytes of packets, padded to a burst of %d bytes that ends %d bytes into a segment; the length distribution could only sample %v", len(b), full, len(ct), end, l.samples)
		}
	}
	for _, c := range chunks {
		if c <= 0 || len(ct) == 0 {
			continue
		}
		if c > len(ct) {
			c = len(ct)
		}
		if err := l.sess.Feed(ct[:c]); err != nil {
			return fmt.Sprintf("VIOL[c15-client-packet]: after client Write(%d): %v", len(b), err)
		}
		ct = ct[c:]
	}
	if err := l.sess.Feed(ct); err != nil {
		return fmt.Sprintf("VIOL[c15-client-packet]: after client Write(%d): %v", len(b), err)
	}
	if rx := l.sess.Rx; len(rx) > len(l.wrote) || !bytes.Equal(rx, l.wrote[:len(rx)]) {
		return fmt.Sprintf("VIOL[c15-upstream]: server decoded %d bytes that are not a prefix of the %d bytes the client wrote (first difference at %d)", len(rx), len(l.wrote), vf15FirstDiff(rx, l.wrote))
	}
	for i, p := range l.sess.RxPkts {
		if p.Flags != refss.FlagPayload {
			return fmt.Sprintf("VIOL[c15-client-packet]: client packet %d carries flags %#x", i, p.Flags)
		}
	}
	return ""
}

// upstreamComplete is called when the client application will not write any
// more on this connection: everything it wrote must have reached the server
// (no promptness is demanded of the individual Write calls before).
func (l *vf15Link) upstreamComplete(ctx string) string {
	if l.sess == nil {
		return ""
	}
	if !bytes.Equal(l.sess.Rx, l.wrote) {
		return fmt.Sprintf("VIOL[c15-upstream]: %s: server decoded %d bytes, client wrote %d (first difference at %d)", ctx, len(l.sess.Rx), len(l.wrote), vf15FirstDiff(l.sess.Rx, l.wrote))
	}
	if l.sess.Buffered() != 0 {
		return fmt.Sprintf("VIOL[c15-client-packet]: %s: the client's last Write left %d bytes that do not form a complete packet", ctx, l.sess.Buffered())
	}
	return ""
}

func vf15FirstDiff(a, b []byte) int {
	n := len(a)
	if len(b) < n {
		n = len(b)
	}
	for i := 0; i < n; i++ {
		if a[i] != b[i] {
			return i
		}
	}
	return n
}

// vf15Fill returns n reproducible bytes of stream `tag` of case k.
func vf15Fill(k uint64, tag uint64, n int) []byte {
	return detrand.Bytes(k*0x9e3779b97f4a7c15+tag, n)
}

func vf15Secret(k uint64, tag uint64) []byte { return vf15Fill(k, 0x5ec0+tag, refss.SecretLen) }

func vf15Server(secret []byte) *refss.Server {
	s := &refss.Server{Auth: refss.NewAuthority(), Hour: refss.RealHour}
	copy(s.Secret[:], secret)
	return s
}

func vf15TempDir() (string, func()) {
	dir, err := os.MkdirTemp("", "vf15-")
	if err != nil {
		panic(err)
	}
	return dir, func() { _ = os.RemoveAll(dir) }
}
