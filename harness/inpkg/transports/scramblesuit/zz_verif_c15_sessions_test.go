//go:build verif

package scramblesuit

// C15 unit "sessions": one generated connection per case — random two-/three-way
// splits of the server's first flight, write sequences and chunkings both
// ways under the lock-step oracle, one flipped bit in a generated packet,
// wrong shared secret, one flipped bit in the response.

import (
	"fmt"
	"sort"
	"strings"
	"testing"

	"pgregory.net/rapid"

	"gitlab.com/yawning/obfs4.git/internal/verifkit/detrand"
	"gitlab.com/yawning/obfs4.git/internal/verifkit/ev"
	"gitlab.com/yawning/obfs4.git/internal/verifkit/refss"
	"gitlab.com/yawning/obfs4.git/internal/verifkit/wire"
)

const (
	vf15ModeOK = iota
	vf15ModeFlipPacket
	vf15ModeWrongSecret
	vf15ModeTamper
)

var vf15ModeNames = []string{"ok", "flip-packet", "wrong-secret", "tamper-response"}

func vf15DrawPad(rt *rapid.T, label string) int {
	switch r := rapid.IntRange(0, 9).Draw(rt, label+"Kind"); {
	case r < 4:
		return rapid.SampledFrom([]int{0, 1, 15, 16, 17, 32, 33, refss.MaxPad - 1, refss.MaxPad}).Draw(rt, label)
	default:
		return rapid.IntRange(0, refss.MaxPad).Draw(rt, label)
	}
}

// vf15DrawCuts draws 0..2 cut points of a first flight of n bytes whose first
// respLen bytes are the response; offsets near the field boundaries of the
// response and inside its last 32 bytes are favoured.
func vf15DrawCuts(rt *rapid.T, respLen, n int) []int {
	if n < 2 {
		return nil
	}
	var want int
	switch r := rapid.IntRange(0, 9).Draw(rt, "ncuts"); {
	case r < 1:
		want = 0
	case r < 6:
		want = 1
	default:
		want = 2
	}
	set := map[int]bool{}
	for i := 0; i < want; i++ {
		var c int
		kind := rapid.IntRange(0, 9).Draw(rt, "cutKind")
		switch {
		case respLen > 0 && kind < 4:
			// inside M_S / MAC_S
			c = respLen - 1 - rapid.IntRange(0, 2*refss.MacLen-1).Draw(rt, "cutTail")
		case respLen > 0 && kind < 6:
			c = rapid.SampledFrom([]int{1, 2, refss.KeySize - 1, refss.KeySize, refss.KeySize + 1,
				respLen - 2*refss.MacLen - 1, respLen - 2*refss.MacLen, respLen - refss.MacLen - 1, respLen - refss.MacLen,
				respLen, respLen + 1, respLen + refss.MacLen - 1, respLen + refss.MacLen, respLen + refss.MacLen + 1,
				respLen + refss.PktOverhead - 1, respLen + refss.PktOverhead, respLen + refss.PktOverhead + 1}).Draw(rt, "cutField")
		case kind < 8:
			c = rapid.IntRange(1, n-1).Draw(rt, "cutAny")
		default:
			c = rapid.SampledFrom([]int{1, 2, refss.MacLen - 1, refss.MacLen, refss.MacLen + 1, refss.PktOverhead - 1,
				refss.PktOverhead, refss.PktOverhead + 1, n - 1, n - 2}).Draw(rt, "cutEdge")
			if respLen > 0 {
				c += respLen
			}
		}
		if c >= 1 && c <= n-1 {
			set[c] = true
		}
	}
	var cuts []int
	for c := range set {
		cuts = append(cuts, c)
	}
	sort.Ints(cuts)
	return cuts
}

func vf15DrawPayloadLen(rt *rapid.T, label string) int {
	switch r := rapid.IntRange(0, 9).Draw(rt, label+"Kind"); {
	case r < 5:
		return rapid.SampledFrom([]int{1, 2, 5, 16, 21, 100, refss.MaxPayload - 1, refss.MaxPayload}).Draw(rt, label)
	default:
		return rapid.IntRange(1, refss.MaxPayload).Draw(rt, label)
	}
}

func vf15DrawPktPad(rt *rapid.T, payload int) int {
	room := refss.MaxPayload - payload
	if room == 0 {
		return 0
	}
	switch r := rapid.IntRange(0, 9).Draw(rt, "ppadKind"); {
	case r < 4:
		return 0
	case r < 6:
		return 1
	case r < 7:
		return room
	default:
		return rapid.IntRange(0, room).Draw(rt, "ppad")
	}
}

type vf15Session struct {
	rt   *rapid.T
	l    *vf15Link
	k    uint64
	srvN int // bytes of the server's plaintext stream generated so far
	cliN int
	log  []string
	cls  map[string]bool
}

func (s *vf15Session) fail(msg string) {
	if msg != "" {
		s.rt.Fatalf("%s\nhistory: %s", msg, strings.Join(s.log, " "))
	}
}

func (s *vf15Session) srvData(n int) []byte {
	b := vf15Fill(s.k, 0x100, s.srvN+n)[s.srvN:]
	s.srvN += n
	return b
}

func (s *vf15Session) cliData(n int) []byte {
	b := vf15Fill(s.k, 0x200, s.cliN+n)[s.cliN:]
	s.cliN += n
	return b
}

// queuePackets lets the server queue 1..3 generated packets.
func (s *vf15Session) queuePackets() {
	cnt := rapid.IntRange(1, 3).Draw(s.rt, "npkts")
	for i := 0; i < cnt; i++ {
		switch r := rapid.IntRange(0, 19).Draw(s.rt, "pktKind"); {
		case r < 14:
			n := vf15DrawPayloadLen(s.rt, "plen")
			pad := vf15DrawPktPad(s.rt, n)
			s.l.packet(refss.FlagPayload, s.srvData(n), pad, nil)
			s.log = append(s.log, fmt.Sprintf("S:data(%d+%d)", n, pad))
		case r < 17:
			pad := vf15DrawPktPad(s.rt, 0)
			s.l.packet(refss.FlagPayload, nil, pad, nil)
			s.log = append(s.log, fmt.Sprintf("S:pad(%d)", pad))
			s.cls["s-padding-packet"] = true
		case r < 19:
			pad := vf15DrawPktPad(s.rt, refss.SeedLen)
			s.l.packet(refss.FlagPrngSeed, vf15Fill(s.k, 0x300+uint64(len(s.l.pkts)), refss.SeedLen), pad, nil)
			s.log = append(s.log, fmt.Sprintf("S:seed(+%d)", pad))
			s.cls["s-prng-seed"] = true
		default:
			tk := s.l.srv.Auth.Issue(vf15Fill(s.k, 0x400+uint64(len(s.l.pkts)), 16))
			pad := vf15DrawPktPad(s.rt, refss.MasterKeyLen+refss.TicketLen)
			s.l.packet(refss.FlagNewTicket, tk.Payload(), pad, nil)
			s.log = append(s.log, fmt.Sprintf("S:ticket(+%d)", pad))
			s.cls["s-new-ticket"] = true
		}
	}
}

// queueCorrupt queues a packet with one inverted bit followed by enough valid
// traffic (> one maximum packet) that the client has to decide.
func (s *vf15Session) queueCorrupt() {
	n := 0
	if rapid.IntRange(0, 9).Draw(s.rt, "cPayload") < 8 {
		n = vf15DrawPayloadLen(s.rt, "cplen")
	}
	pad := vf15DrawPktPad(s.rt, n)
	region := []refss.Region{refss.RegionBody, refss.RegionBody, refss.RegionHeader, refss.RegionHeader,
		refss.RegionMAC}[rapid.IntRange(0, 4).Draw(s.rt, "region")]
	if region == refss.RegionBody && n+pad == 0 {
		region = refss.RegionHeader
	}
	var bit int
	s.l.packet(refss.FlagPayload, s.srvData(n), pad, func(pkt []byte) []byte {
		bit = rapid.IntRange(0, refss.RegionBits(pkt, region)-1).Draw(s.rt, "bit")
		return refss.CorruptPacket(pkt, region, bit)
	})
	s.l.setCorrupt(region, bit, n+pad)
	s.log = append(s.log, fmt.Sprintf("S:CORRUPT(%d+%d,%v bit %d)", n, pad, region, bit))
	s.cls["flip-"+region.String()] = true
	if !s.l.corruptDecidable {
		s.cls["flip-header-length-grows(needs more traffic)"] = true
	}
	if region == refss.RegionBody && bit/8 >= n {
		s.cls["flip-body-in-padding"] = true
	}
	for tail := 0; tail < refss.MaxPayload+refss.PktOverhead+1; {
		m := vf15DrawPayloadLen(s.rt, "tlen")
		p := vf15DrawPktPad(s.rt, m)
		s.l.packet(refss.FlagPayload, s.srvData(m), p, nil)
		tail += m + p + refss.PktOverhead
		s.log = append(s.log, fmt.Sprintf("S:data(%d+%d)", m, p))
	}
}

// corruptBehindIntact: an intact non-empty payload packet and, directly behind
// it, a packet with one inverted bit in its MAC or body (possibly the padding
// packet of the same burst) arrive in ONE segment that fits one network read;
// nothing follows: the server stays silent, or closes.  The intact payload is
// delivered and the modification must be reported all the same.
func (s *vf15Session) corruptBehindIntact(thenEOF bool) {
	l := s.l
	s.fail(l.release(l.n.Pending(wire.B)))
	s.fail(l.checkDelivery("before the modified packet"))
	m := rapid.SampledFrom([]int{1, 5, 100, 500}).Draw(s.rt, "intactLen")
	l.packet(refss.FlagPayload, s.srvData(m), rapid.SampledFrom([]int{0, 1, 30}).Draw(s.rt, "intactPad"), nil)
	n := rapid.SampledFrom([]int{0, 0, 1, 50, 400}).Draw(s.rt, "damagedLen")
	pad := rapid.SampledFrom([]int{0, 1, 40, 300}).Draw(s.rt, "damagedPad")
	region := refss.RegionMAC
	if n+pad > 0 && rapid.Bool().Draw(s.rt, "inBody") {
		region = refss.RegionBody
	}
	var bit int
	l.packet(refss.FlagPayload, s.srvData(n), pad, func(pkt []byte) []byte {
		bit = rapid.IntRange(0, refss.RegionBits(pkt, region)-1).Draw(s.rt, "bit")
		return refss.CorruptPacket(pkt, region, bit)
	})
	l.setCorrupt(region, bit, n+pad)
	s.log = append(s.log, fmt.Sprintf("S:data(%d) S:CORRUPT(%d+%d,%v bit %d) in one segment, then %s", m, n, pad, region, bit, map[bool]string{false: "silence", true: "EOF"}[thenEOF]))
	s.cls["flip-"+region.String()] = true
	s.cls["flip-behind-intact-payload-nothing-after"] = true
	if n == 0 {
		s.cls["flip-in-padding-packet-behind-payload"] = true
	}
	s.fail(l.release(l.n.Pending(wire.B)))
	s.fail(l.checkDelivery("intact payload packet and modified packet in one segment, then silence"))
	if thenEOF {
		s.cls["flip-behind-intact-then-eof"] = true
		l.n.EOF(wire.B)
		s.fail(l.quiesce())
		s.fail(l.checkDelivery("intact payload packet and modified packet in one segment, then EOF"))
	}
}

// releaseSome releases one drawn segment of the server->client stream.
func (s *vf15Session) releaseSome() {
	pend := s.l.n.Pending(wire.B)
	if pend == 0 {
		return
	}
	rel := int(s.l.n.Released(wire.B))
	next := -1 // distance to the end of the packet the released prefix ends in
	for _, p := range s.l.pkts {
		if p.end > rel {
			next = p.end - rel
			break
		}
	}
	var k int
	switch r := rapid.IntRange(0, 9).Draw(s.rt, "relKind"); {
	case r < 2:
		k = rapid.SampledFrom([]int{1, 2, 15, 16, 17, 20, 21, 22}).Draw(s.rt, "relSmall")
	case r < 5 && next > 0:
		k = next + rapid.IntRange(-1, 1).Draw(s.rt, "relEdge")
	case r < 7:
		k = rapid.IntRange(1, 1500).Draw(s.rt, "relAny")
	default:
		k = pend
	}
	if k < 1 {
		k = 1
	}
	if k > pend {
		k = pend
	}
	if s.endsInsidePacket(rel + k) {
		s.cls["release-ends-inside-packet"] = true
	}
	s.log = append(s.log, fmt.Sprintf("rel(%d)", k))
	s.fail(s.l.release(k))
}

func (s *vf15Session) endsInsidePacket(off int) bool {
	for _, p := range s.l.pkts {
		if p.end == off {
			return false
		}
	}
	return off > s.l.respLen
}

func (s *vf15Session) clientWrite() {
	var n int
	switch r := rapid.IntRange(0, 9).Draw(s.rt, "wKind"); {
	case r < 6:
		n = rapid.SampledFrom([]int{0, 1, 2, 100, maxPayloadLength - 1, maxPayloadLength, maxPayloadLength + 1,
			2*maxPayloadLength - 1, 2 * maxPayloadLength, 2*maxPayloadLength + 1, 4000}).Draw(s.rt, "wlen")
	case r < 8:
		// packets end 1428..1447 bytes into a segment: padding has to wrap
		n = rapid.IntRange(0, 2).Draw(s.rt, "wFull")*maxPayloadLength + rapid.IntRange(maxPayloadLength-20, maxPayloadLength-1).Draw(s.rt, "wTail")
		s.cls["c-write-tail-1428..1447"] = true
	default:
		n = rapid.IntRange(0, 5000).Draw(s.rt, "wlenAny")
	}
	restore := func() {}
	if rapid.IntRange(0, 2).Draw(s.rt, "steer") == 0 {
		// steer the sampled length: just behind the end of the packets (fewer than
		// 21 bytes missing), or the extremes of the distribution
		tail := ((n+maxPayloadLength-1)/maxPayloadLength*pktOverhead + n) % maxSegmentLength
		v := rapid.SampledFrom([]int{minLenDistLength, maxLenDistLength - 1}).Draw(s.rt, "steerExtreme")
		if d := rapid.IntRange(0, 21).Draw(s.rt, "steerGap"); d <= 20 && tail+d >= minLenDistLength && tail+d < maxLenDistLength {
			v = tail + d
			s.cls["c-write-steered-gap<21"] = true
		}
		restore = s.l.steer(v, s.k+uint64(len(s.log)))
		s.cls["c-write-steered"] = true
		s.log = append(s.log, fmt.Sprintf("steer(%d)", v))
	}
	defer restore()
	var chunks []int
	switch rapid.IntRange(0, 3).Draw(s.rt, "chunking") {
	case 0:
	case 1:
		chunks = []int{rapid.IntRange(1, 64).Draw(s.rt, "chunk1")}
	case 2:
		for i := 0; i < 200; i++ {
			chunks = append(chunks, 1+(i*7)%23)
		}
	default:
		chunks = rapid.SliceOfN(rapid.IntRange(1, 1600), 1, 6).Draw(s.rt, "chunks")
	}
	if n > maxPayloadLength {
		s.cls["c-write-multi-frame"] = true
	}
	if n == 0 {
		s.cls["c-write-empty"] = true
	}
	s.log = append(s.log, fmt.Sprintf("C:write(%d)", n))
	s.fail(s.l.clientWrite(s.cliData(n), chunks))
}

// vf15EndFailedDial makes a handshake that cannot succeed end: more valid
// looking traffic, the (virtual) handshake deadline, or EOF.
func vf15EndFailedDial(rt *rapid.T, l *vf15Link, log *[]string) string {
	how := rapid.SampledFrom([]string{"flood", "deadline", "eof"}).Draw(rt, "end")
	*log = append(*log, "end:"+how)
	switch how {
	case "flood":
		if l.sess != nil {
			for l.queued < refss.MaxHandshake+64 {
				l.packet(refss.FlagPayload, vf15Fill(1, uint64(l.queued), 700), 0, nil)
			}
		} else {
			l.write(vf15Fill(2, uint64(l.queued), refss.MaxHandshake+64))
		}
		if msg := l.release(l.n.Pending(wire.B)); msg != "" {
			return msg
		}
	case "deadline":
		// C15 does not promise a timeout: when no deadline is armed the stream is cut below
		if !l.n.Closed(wire.A) {
			l.n.Fire(wire.A)
		}
	case "eof":
		l.n.EOF(wire.B)
	}
	if msg := l.quiesce(); msg != "" {
		return msg
	}
	if !l.ep.SetupDone() {
		// still waiting (only possible after "flood" was refused): cut the stream
		l.n.EOF(wire.B)
		if msg := l.quiesce(); msg != "" {
			return msg
		}
	}
	return ""
}

func TestVerifC15Sessions(t *testing.T) {
	if err := vf15Anchors(); err != nil {
		t.Fatalf("reference server anchors: %v", err)
	}
	c := vf15Evidence()
	c.Rule("sessions: one connection per case through ClientFactory/ParseArgs/Dial against refss: server padding length (edges and 0..1308), Y or p-Y, the first flight (response, optionally with coalesced packets; or the first packets after a ticket handshake) cut in 1..3 segments at field boundaries +-1 / inside the last 32 bytes / anywhere, then up to 12 operations {server queues 1..3 packets (data, padding-only, PRNG_SEED, NEW_TICKET), release a segment (1..22 bytes, packet boundary +-1, anything, all), client Write (0..5000 bytes; 1427/1428/2854 edges) fed to the server in a drawn chunking, read buffer size 1/7/1427/65536}; at every quiescent point after Dial has returned, on an unmodified stream, everything that has arrived in complete packets must have been delivered (payload), be in the ticket store (NEW_TICKET) or have reset the length distribution (PRNG_SEED) without any further traffic; modes: ok, one flipped bit in a packet (MAC, header, body) followed by > 1448 valid bytes, or — half of the cases — an intact non-empty payload packet and directly behind it a packet with a flipped MAC / body bit (also the padding-only packet of the burst) in ONE segment that fits one network read, then silence or EOF; a modification that is decidable once the packet has arrived completely (MAC, body, any header bit except a 0->1 flip of the total length that stays <= 1427) must have produced a Read error other than io.EOF at the next quiescent point without further traffic (the reader calls Read three more times after the first error; everything delivered, before or after it, must stay a prefix of what the server sent), wrong shared secret, one flipped bit in the response; non-trivial = a cut inside the last 32 bytes of the response or a mode other than ok; fingerprint = seed, mode, padding, cuts, operation log")
	c.Floor("mode-flip-packet/sessions", 0.15)
	c.Floor("flip-behind-intact-payload-nothing-after/mode-flip-packet", 0.25)
	c.Floor("flip-behind-intact-then-eof/mode-flip-packet", 0.08)
	c.Floor("flip-body/mode-flip-packet", 0.15)
	c.Floor("flip-header/mode-flip-packet", 0.15)
	c.Floor("flip-mac/mode-flip-packet", 0.10)
	c.Floor("mode-tamper-response/sessions", 0.08)
	c.Floor("mode-wrong-secret/sessions", 0.04)
	c.Floor("cut-inside-last-32/udh-ok", 0.25)
	c.Floor("via-ticket/sessions", 0.08)
	c.Floor("coalesced-first-flight/sessions", 0.15)
	c.Floor("c-write-multi-frame/sessions", 0.10)
	rapid.Check(t, func(rt *rapid.T) {
		k := rapid.Uint64().Draw(rt, "seed")
		detrand.Seed(k)
		defer detrand.Real()
		mode := vf15ModeOK
		switch r := rapid.IntRange(0, 19).Draw(rt, "mode"); {
		case r < 7:
		case r < 13:
			mode = vf15ModeFlipPacket
		case r < 15:
			mode = vf15ModeWrongSecret
		default:
			mode = vf15ModeTamper
		}
		viaTicket := (mode == vf15ModeOK || mode == vf15ModeFlipPacket) && rapid.IntRange(0, 3).Draw(rt, "viaTicket") == 0
		pad := vf15DrawPad(rt, "pad")
		alt := rapid.Bool().Draw(rt, "sendAlt")
		secret := vf15Secret(k, 0)
		srv := vf15Server(secret)
		dir, cleanup := vf15TempDir()
		defer cleanup()
		cf, err := (&Transport{}).ClientFactory(dir)
		if err != nil {
			rt.Fatalf("ClientFactory: %v", err)
		}
		const addr = "192.0.2.15:443"
		cls := map[string]bool{"mode-" + vf15ModeNames[mode]: true}
		s := &vf15Session{rt: rt, k: k, cls: cls}

		var issued *refss.Ticket
		if viaTicket {
			// a first connection on which the server hands out a ticket
			l0 := vf15Dial(cf, srv, addr, secret)
			s.l = l0
			s.fail(l0.readHello())
			s.fail(l0.checkHello())
			l0.writeResponse(l0.respond(vf15Fill(k, 7, refss.KeySize), !alt, vf15Fill(k, 8, 40)))
			issued = srv.Auth.Issue(vf15Fill(k, 9, 16))
			l0.packet(refss.FlagNewTicket, issued.Payload(), 3, nil)
			l0.packet(refss.FlagPayload, nil, 0, nil)
			// response, NEW_TICKET and an empty packet in ONE segment, nothing follows:
			// the ticket must be in the store at quiescence (checkControl)
			s.fail(l0.release(l0.queued))
			s.fail(l0.handshakeDone("ticket-issuing connection"))
			s.fail(l0.checkDelivery("ticket-issuing connection"))
			l0.close()
			s.log = append(s.log, "udh+ticket;")
			cls["via-ticket"] = true
		}

		clientSecret := secret
		if mode == vf15ModeWrongSecret {
			if rapid.Bool().Draw(rt, "secretOneBit") {
				clientSecret = refss.FlipBit(secret, rapid.IntRange(0, refss.SecretLen*8-1).Draw(rt, "secretBit"))
			} else {
				clientSecret = vf15Secret(k, 1)
			}
		}
		l := vf15Dial(cf, srv, addr, clientSecret)
		defer l.close()
		s.l = l
		if mode == vf15ModeFlipPacket {
			// the application calls Read three more times after the first error:
			// whatever those calls deliver is judged by the same prefix oracle
			l.ep.KeepReading(3)
		}
		s.fail(l.readHello())

		if mode == vf15ModeWrongSecret {
			if l.helloErr == nil {
				rt.Fatalf("harness: hello keyed with a different secret verified")
			}
			if l.hello.Kind != refss.KindUniformDH {
				rt.Fatalf("VIOL[c15-handshake-kind]: empty ticket store, client sent a %v handshake", l.hello.Kind)
			}
			l.tampered = true
			if rapid.Bool().Draw(rt, "answerAnyway") {
				// an impostor that answers with its own secret
				s.log = append(s.log, "answer-anyway")
				l.writeResponse(l.respond(vf15Fill(k, 1, refss.KeySize), alt, vf15Fill(k, 2, pad)))
				for _, cut := range append(vf15DrawCuts(rt, l.respLen, l.queued), l.queued) {
					s.fail(l.release(cut - int(l.n.Released(wire.B))))
				}
			} else {
				s.log = append(s.log, "silent")
			}
			s.fail(vf15EndFailedDial(rt, l, &s.log))
			if l.ep.SetupDone() && l.ep.SetupErr() == nil {
				rt.Fatalf("VIOL[c15-wrong-secret-accepted]: Dial completed although client and server secrets differ (%x vs %x); history: %s", clientSecret, secret, strings.Join(s.log, " "))
			}
			c.Case(vf15Hash(k, mode, pad, nil, s.log), true, vf15Classes(cls), func() any {
				return map[string]any{"mode": vf15ModeNames[mode], "seed": k, "pad": pad, "log": strings.Join(s.log, " "), "dial_error": fmt.Sprint(l.ep.SetupErr())}
			})
			return
		}

		s.fail(l.checkHello())
		wantKind := refss.KindUniformDH
		if viaTicket {
			wantKind = refss.KindTicket
		}
		if l.hello.Kind != wantKind {
			rt.Fatalf("VIOL[c15-handshake-kind]: client sent a %v handshake, expected %v (ticket issued on the previous connection: %v)", l.hello.Kind, wantKind, viaTicket)
		}
		if viaTicket {
			if l.hello.Ticket != issued || l.hello.PriorSeen != 0 {
				rt.Fatalf("VIOL[c15-ticket-mismatch]: client presented ticket #%d (seen %d times before), the store should hold #%d", l.hello.Ticket.Serial, l.hello.PriorSeen, issued.Serial)
			}
			l.sess = refss.NewTicketSession(l.hello.Ticket)
			cls["ticket-pad-"+vf15Bucket(l.hello.PadLen, refss.MaxTicketPad)] = true
		} else {
			cls["client-pad-"+vf15Bucket(l.hello.PadLen, refss.MaxPad)] = true
			resp := l.respond(vf15Fill(k, 1, refss.KeySize), alt, vf15Fill(k, 2, pad))
			if mode == vf15ModeTamper {
				fields := []refss.Field{refss.FieldY, refss.FieldMark, refss.FieldMAC}
				if pad > 0 {
					fields = append(fields, refss.FieldPad)
				}
				f := fields[rapid.IntRange(0, len(fields)-1).Draw(rt, "tamperField")]
				from, to := refss.Layout(pad).Span(f)
				bit := rapid.IntRange(0, (to-from)*8-1).Draw(rt, "tamperBit")
				resp = refss.CorruptResponse(resp, f, bit)
				l.tampered = true
				cls["tamper-"+f.String()] = true
				s.log = append(s.log, fmt.Sprintf("tamper(%v bit %d)", f, bit))
			}
			l.writeResponse(resp)
		}

		// first flight: response and/or first packets, cut into segments
		coalesce := viaTicket || rapid.IntRange(0, 9).Draw(rt, "coalesce") < 4
		if coalesce {
			s.queuePackets()
			if !viaTicket {
				cls["coalesced-first-flight"] = true
			}
		}
		flight := l.queued
		cuts := vf15DrawCuts(rt, l.respLen, flight)
		inLast32 := false
		for _, cut := range cuts {
			if l.respLen > 0 && cut > l.respLen-2*refss.MacLen && cut < l.respLen {
				inLast32 = true
			}
		}
		s.log = append(s.log, fmt.Sprintf("pad=%d resp=%d flight=%d cuts=%v;", pad, l.respLen, flight, cuts))
		cls[fmt.Sprintf("cuts-%d", len(cuts))] = true
		for _, cut := range append(append([]int(nil), cuts...), flight) {
			s.fail(l.release(cut - int(l.n.Released(wire.B))))
			if !l.tampered {
				s.fail(l.checkDelivery("first flight"))
			}
		}

		if mode == vf15ModeTamper {
			s.fail(vf15EndFailedDial(rt, l, &s.log))
			if l.ep.SetupDone() && l.ep.SetupErr() == nil {
				rt.Fatalf("VIOL[c15-tampered-accepted]: Dial completed although one bit of the response was inverted; history: %s", strings.Join(s.log, " "))
			}
			c.Case(vf15Hash(k, mode, pad, cuts, s.log), true, vf15Classes(cls), func() any {
				return map[string]any{"mode": vf15ModeNames[mode], "seed": k, "pad": pad, "cuts": cuts, "log": strings.Join(s.log, " "), "dial_error": fmt.Sprint(l.ep.SetupErr())}
			})
			return
		}

		ctx := fmt.Sprintf("pad=%d response=%d bytes flight=%d cuts=%v alt=%v", pad, l.respLen, flight, cuts, alt)
		s.fail(l.handshakeDone(ctx))
		if !viaTicket {
			cls["udh-ok"] = true
			if inLast32 {
				cls["cut-inside-last-32"] = true
			}
		}

		nops := rapid.IntRange(0, 12).Draw(rt, "nops")
		corruptAt, shape := -1, 0
		if mode == vf15ModeFlipPacket {
			corruptAt = rapid.IntRange(0, nops).Draw(rt, "corruptAt")
			shape = rapid.IntRange(0, 3).Draw(rt, "corruptShape")
		}
		for i := 0; i <= nops; i++ {
			if i == corruptAt {
				if shape >= 2 {
					s.corruptBehindIntact(shape == 3)
					break // nothing follows the modified packet
				}
				s.queueCorrupt()
			}
			if i == nops {
				break
			}
			switch r := rapid.IntRange(0, 9).Draw(rt, "op"); {
			case r < 3:
				s.queuePackets()
			case r < 6:
				s.releaseSome()
			case r < 9:
				if l.ep.Conn() != nil {
					s.clientWrite()
				}
			default:
				b := rapid.SampledFrom([]int{1, 7, 1427, 65536}).Draw(rt, "buf")
				l.ep.SetBuf(b)
				s.log = append(s.log, fmt.Sprintf("buf(%d)", b))
				if b < 1427 {
					cls["small-read-buffer"] = true
				}
			}
			s.fail(l.checkDelivery(fmt.Sprintf("after op %d", i)))
		}

		if mode == vf15ModeFlipPacket {
			for l.n.Pending(wire.B) > 0 {
				s.releaseSome()
				s.fail(l.checkDelivery("draining after the modified packet"))
			}
			if reads, n := l.ep.AfterErr(); reads > 0 {
				cls["reads-after-error"] = true
				if n > 0 {
					cls["bytes-delivered-after-error"] = true
				}
			}
			if l.ep.ReadErr() == nil {
				rt.Fatalf("VIOL[c15-corruption-undetected]: a packet with one inverted bit and %d further bytes were delivered, client Read reports no error (delivered %d of %d bytes); history: %s",
					refss.MaxPayload+refss.PktOverhead, l.ep.GotLen(), len(l.sent), strings.Join(s.log, " "))
			}
		} else {
			s.fail(l.finalCompare(ctx+"; history: "+strings.Join(s.log, " "), rapid.Bool().Draw(rt, "alsoFlush")))
		}
		s.fail(l.upstreamComplete(ctx))
		nt := inLast32 || mode != vf15ModeOK
		c.Case(vf15Hash(k, mode, pad, cuts, s.log), nt, vf15Classes(cls), func() any {
			return map[string]any{"mode": vf15ModeNames[mode], "seed": k, "pad": pad, "via_ticket": viaTicket, "cuts": cuts,
				"log": strings.Join(s.log, " "), "read_error": fmt.Sprint(l.ep.ReadErr()), "delivered": l.ep.GotLen(), "client_wrote": len(l.wrote)}
		})
	})
}

func vf15Hash(k uint64, mode, pad int, cuts []int, log []string) uint64 {
	return ev.Hash(k, mode, pad, fmt.Sprint(cuts), strings.Join(log, " "))
}

func vf15Bucket(v, max int) string {
	switch {
	case v == 0:
		return "0"
	case v == max:
		return "max"
	case v < max/2:
		return "low"
	}
	return "high"
}

func vf15Classes(m map[string]bool) []string {
	out := []string{"sessions"}
	for k, v := range m {
		if v {
			out = append(out, k)
		}
	}
	sort.Strings(out)
	return out
}
