//go:build verif

package scramblesuit

// C15 unit "splits": complete enumeration of the split point of the server's
// UniformDH response for selected padding lengths.

import (
	"encoding/json"
	"fmt"
	"os"
	"sort"
	"strings"
	"testing"

	"gitlab.com/yawning/obfs4.git/internal/verifkit/detrand"
	"gitlab.com/yawning/obfs4.git/internal/verifkit/ev"
	"gitlab.com/yawning/obfs4.git/internal/verifkit/refss"
	"gitlab.com/yawning/obfs4.git/internal/verifkit/wire"
	"gitlab.com/yawning/obfs4.git/transports/base"
)

type vf15SplitCase struct {
	Pad      int  `json:"pad"`      // server padding length
	Cut      int  `json:"cut"`      // bytes in the first segment (1 .. len(response)-1)
	Coalesce bool `json:"coalesce"` // a data packet follows the response in the same segment
}

// vf15SizeClassBoundaries returns the allocation sizes n in [lo, hi] that the
// Go allocator does not round up (size-class boundaries), measured rather than
// tabulated.
func vf15SizeClassBoundaries(lo, hi int) []int {
	var out []int
	for n := lo; n <= hi; n++ {
		if cap(append([]byte(nil), make([]byte, n)...)) == n {
			out = append(out, n)
		}
	}
	return out
}

// vf15SplitPads returns the padding lengths whose splits are enumerated: the
// fixed set of the design plus, for every size class c a receive buffer can
// have, the lengths that put the response end 1 and 16 bytes behind c.
func vf15SplitPads() (fixed []int, classPads []int) {
	fixed = []int{0, 1, 15, 16, 17, refss.MaxPad}
	seen := map[int]bool{}
	for _, p := range fixed {
		seen[p] = true
	}
	const minResp = refss.KeySize + 2*refss.MacLen
	for _, c := range vf15SizeClassBoundaries(minResp, refss.MaxHandshake-1) {
		for _, l := range []int{c + 1, c + refss.MacLen} {
			p := l - minResp
			if p >= 0 && p <= refss.MaxPad && !seen[p] {
				seen[p] = true
				classPads = append(classPads, p)
			}
		}
	}
	sort.Ints(classPads)
	return fixed, classPads
}

// vf15RunSplit runs one case; "" or a violation message.
func vf15RunSplit(cf base.ClientFactory, cs vf15SplitCase) string {
	k := uint64(0x15000000 + cs.Pad)
	detrand.Seed(k)
	defer detrand.Real()
	secret := vf15Secret(k, 0)
	srv := vf15Server(secret)
	l := vf15Dial(cf, srv, "192.0.2.15:443", secret)
	defer l.close()
	if msg := l.readHello(); msg != "" {
		return msg
	}
	if msg := l.checkHello(); msg != "" {
		return msg
	}
	if l.hello.Kind != refss.KindUniformDH {
		return fmt.Sprintf("VIOL[c15-handshake-kind]: empty ticket store, client sent a %v handshake", l.hello.Kind)
	}
	resp := l.respond(vf15Fill(k, 1, refss.KeySize), cs.Pad%2 == 1, vf15Fill(k, 2, cs.Pad))
	if cs.Cut < 1 || cs.Cut >= len(resp) {
		return fmt.Sprintf("bad case: cut %d outside 1..%d", cs.Cut, len(resp)-1)
	}
	l.writeResponse(resp)
	data := vf15Fill(k, 3, 1+cs.Cut%300)
	if cs.Coalesce {
		l.packet(refss.FlagPayload, data, cs.Cut%7, nil)
	}
	ctx := fmt.Sprintf("pad=%d response=%d bytes split=%d+%d coalesce=%v", cs.Pad, len(resp), cs.Cut, len(resp)-cs.Cut, cs.Coalesce)
	if msg := l.release(cs.Cut); msg != "" {
		return msg + " [" + ctx + "]"
	}
	if msg := l.release(l.n.Pending(wire.B)); msg != "" {
		return msg + " [" + ctx + "]"
	}
	if msg := l.handshakeDone(ctx); msg != "" {
		return msg
	}
	if !cs.Coalesce {
		l.packet(refss.FlagPayload, data, cs.Cut%7, nil)
		if msg := l.release(l.queued); msg != "" {
			return msg + " [" + ctx + "]"
		}
	}
	if msg := l.checkDelivery(ctx); msg != "" {
		return msg
	}
	if msg := l.clientWrite(vf15Fill(k, 4, 1+cs.Cut%97), nil); msg != "" {
		return msg + " [" + ctx + "]"
	}
	if msg := l.upstreamComplete(ctx); msg != "" {
		return msg
	}
	return l.finalCompare(ctx, cs.Cut%2 == 0)
}

// TestVerifC15Splits enumerates every split point (quick: the last 64 offsets)
// of the response for the selected padding lengths, with and without a data
// packet coalesced behind the response; thorough adds every padding length
// 0..1308 with the last 48 offsets.
func TestVerifC15Splits(t *testing.T) {
	if err := vf15Anchors(); err != nil {
		t.Fatalf("reference server anchors: %v", err)
	}
	dir, cleanup := vf15TempDir()
	defer cleanup()
	cf, err := (&Transport{}).ClientFactory(dir)
	if err != nil {
		t.Fatalf("ClientFactory: %v", err)
	}
	if rc := os.Getenv("VERIF_REPLAY_CASE"); rc != "" {
		var cs vf15SplitCase
		if err := json.Unmarshal([]byte(rc), &cs); err != nil {
			t.Fatalf("bad replay case: %v", err)
		}
		if msg := vf15RunSplit(cf, cs); msg != "" {
			// printed again so that the replay record the driver rewrites keeps the case
			fmt.Printf("VERIF-REPLAY-CASE: %s\n", rc)
			t.Fatalf("%s", msg)
		}
		return
	}
	c := vf15Evidence()
	c.Rule("splits: complete enumeration of (server padding length, split offset of the response, data packet coalesced behind the response or not) for padding lengths {0,1,15,16,17,1308} and those that put the response end 1 or 16 bytes behind a Go allocator size class (quick: the last 64 offsets of each; thorough: every offset, plus every padding length 0..1308 x last 48 offsets); after the handshake one packet each way; everything that has arrived must be delivered at quiescence without further traffic (for even split offsets an empty packet follows and equality is demanded again); non-trivial = split inside the last 32 bytes (M_S or MAC_S); distinct by construction")
	shard, nshards := ev.IntEnv("VERIF_SHARD", 0), ev.IntEnv("VERIF_NSHARDS", 1)
	fixed, classPads := vf15SplitPads()
	const minResp = refss.KeySize + 2*refss.MacLen
	var cases []vf15SplitCase
	addPad := func(pad, last int, both bool) int {
		l := minResp + pad
		from := 1
		if last > 0 && l-last > 1 {
			from = l - last
		}
		n := 0
		for cut := from; cut < l; cut++ {
			if both {
				cases = append(cases, vf15SplitCase{pad, cut, false}, vf15SplitCase{pad, cut, true})
				n += 2
			} else {
				cases = append(cases, vf15SplitCase{pad, cut, (pad+cut)%2 == 0})
				n++
			}
		}
		return n
	}
	last := 64
	if ev.Thorough() {
		last = 0
	}
	total := 0
	for _, p := range append(append([]int(nil), fixed...), classPads...) {
		total += addPad(p, last, true)
	}
	name := fmt.Sprintf("(pad, split offset, coalesce) for %d padding lengths (%v + size-class %v), ", len(fixed)+len(classPads), fixed, classPads)
	if ev.Thorough() {
		name += "every offset"
	} else {
		name += "last 64 offsets"
	}
	var total2 int
	if ev.Thorough() {
		inFirst := map[int]bool{}
		for _, p := range append(append([]int(nil), fixed...), classPads...) {
			inFirst[p] = true
		}
		for p := 0; p <= refss.MaxPad; p++ {
			if !inFirst[p] {
				total2 += addPad(p, 48, false)
			}
		}
	}
	var evals, nt int64
	fails := map[string]int{}
	var first string
	var firstCase vf15SplitCase
	var examples []string
	for i, cs := range cases {
		if i%nshards != shard {
			continue
		}
		evals++
		if cs.Cut > minResp+cs.Pad-2*refss.MacLen {
			nt++
		}
		msg := vf15RunSplit(cf, cs)
		if msg == "" {
			continue
		}
		sig := msg
		if j := strings.Index(msg, "]"); j > 0 {
			sig = msg[:j+1]
		}
		fails[sig]++
		if first == "" {
			first, firstCase = msg, cs
		}
		if len(examples) < 12 {
			line := msg
			if j := strings.Index(line, "\n"); j > 0 {
				line = line[:j]
			}
			if len(line) > 300 {
				line = line[:300]
			}
			examples = append(examples, fmt.Sprintf("%+v: %s", cs, line))
		}
	}
	if first != "" {
		js, _ := json.Marshal(firstCase)
		fmt.Printf("VERIF-REPLAY-CASE: %s\n", js)
		nfail := 0
		for _, v := range fails {
			nfail += v
		}
		t.Fatalf("%s\n%d of %d enumerated splits failed in this shard, by kind %v; examples:\n  %s", first, nfail, evals, fails, strings.Join(examples, "\n  "))
	}
	c.Bulk(evals, nt)
	c.Class("splits", evals)
	c.Class("splits-inside-last-32", nt)
	if shard == 0 {
		c.Subspace(name, int64(total))
		if total2 > 0 {
			c.Subspace("(pad, split offset) for every other padding length 0..1308 x last 48 offsets", int64(total2))
		}
	}
}
