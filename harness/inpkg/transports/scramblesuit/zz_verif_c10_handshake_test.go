//go:build verif

package scramblesuit

// C10 ScrambleSuit stage 1: hostile bytes in place of the server's handshake
// response (UniformDH), or as the first thing an endpoint sees after a ticket
// handshake.  One case runner, driven by a rapid generator and by a native
// fuzz target through a small decoder.

import (
	"bytes"
	"fmt"
	"math/big"
	"runtime"
	"testing"

	"pgregory.net/rapid"

	"gitlab.com/yawning/obfs4.git/internal/verifkit/ev"
	"gitlab.com/yawning/obfs4.git/internal/verifkit/refss"
	"gitlab.com/yawning/obfs4.git/internal/verifkit/wire"
)

const (
	vf10HSRaw       = 0 // pattern repeated to N bytes
	vf10HSMarkBadMA = 1 // Y | P | correct mark | wrong MAC | tail
	vf10HSTruncated = 2 // valid response cut at Trunc
	vf10HSValidTail = 3 // valid response | valid packets | garbage
	vf10HSOddY      = 4 // degenerate public key with a valid mark and MAC | garbage
	vf10HSKinds     = 5
)

var vf10HSKindNames = []string{"raw", "mark+wrong-mac", "truncated-valid", "valid+tail", "degenerate-y+tail"}

type vf10HS struct {
	Seed    uint64
	Ticket  bool
	Kind    int
	Pattern []byte
	N       int // raw length / garbage tail length
	Pad     int // server padding
	Trunc   int // truncation offset (taken modulo the response length + 1)
	MacKind int // kind 1: how the MAC is wrong
	YKind   int // kind 4
	Packets int // kind 3: valid packets in front of the garbage
	Chunks  []int
	Burst   int
	Ending  int
	Buf     int
	Cache   bool
}

type vf10HSResult struct {
	stream    []byte
	want      []byte // payload of the valid packets in the stream
	markFound bool   // the stream got past the length test and the mark search of the response parser
	dialOK    bool
	dialErr   error
	readErr   error
	consumed  int64
	delivered int
	respLen   int
}

func (h *vf10HS) describe(r *vf10HSResult) string {
	return fmt.Sprintf("  case: seed=%#x ticket-handshake=%v kind=%s pattern=%s n=%d pad=%d trunc=%d mackind=%d ykind=%d packets=%d chunks=%v burst=%d ending=%s buf=%d\n  stream: %d bytes %s\n  outcome: dial ok=%v err=%v, read err=%v, consumed %d, delivered %d",
		h.Seed, h.Ticket, vf10HSKindNames[h.Kind], ev.Hex(h.Pattern), h.N, h.Pad, h.Trunc, h.MacKind, h.YKind, h.Packets, vf10Short(h.Chunks), h.Burst, vf10EndNames[h.Ending], h.Buf,
		len(r.stream), ev.Hex(r.stream), r.dialOK, r.dialErr, r.readErr, r.consumed, r.delivered)
}

func vf10Short(v []int) string {
	if len(v) > 12 {
		return fmt.Sprintf("%v...(%d)", v[:12], len(v))
	}
	return fmt.Sprint(v)
}

var vf10GroupP, _ = new(big.Int).SetString("FFFFFFFFFFFFFFFFC90FDAA22168C234C4C6628B80DC1CD129024E088A67CC74020BBEA63B139B22514A08798E3404DDEF9519B3CD3A431B302B0A6DF25F14374FE1356D6D51C245E485B576625E7EC6F44C42E9A637ED6B0BFF5CB6F406B7EDEE386BFB5A899FA5AE9F24117C4B1FE649286651ECE45B3DC2007CB8A163BF0598DA48361C55D39A69163FA8FD24CF5F83655D23DCA3AD961C62F356208552BB9ED529077096966D670C354E4ABC9804F1746C08CA237327FFFFFFFFFFFFFFFF", 16)

func vf10OddY(kind int) []byte {
	y := new(big.Int)
	switch kind % 6 {
	case 0: // 0
	case 1:
		y.SetInt64(1)
	case 2:
		y.Sub(vf10GroupP, big.NewInt(1))
	case 3:
		y.Set(vf10GroupP)
	case 4:
		y.Add(vf10GroupP, big.NewInt(1))
	case 5:
		return bytes.Repeat([]byte{0xff}, refss.KeySize)
	}
	return y.FillBytes(make([]byte, refss.KeySize))
}

// build makes the hostile stream for this case once the client's hello is known.
func (h *vf10HS) build(c *vf10Client, r *vf10HSResult) {
	n := h.N
	if n > 1<<20 {
		n = 1 << 20
	}
	pad := h.Pad % (refss.MaxPad + 1)
	if c.ticket != nil {
		// no response in a ticket handshake: the stream goes straight to the packet layer
		switch h.Kind {
		case vf10HSValidTail:
			for i := 0; i < h.Packets; i++ {
				pl := vf10Repeat(h.Pattern, 1+(i*331+len(h.Pattern))%refss.MaxPayload, h.Seed+uint64(i))
				r.stream = append(r.stream, c.sess.Packet(refss.FlagPayload, pl, i%3)...)
				r.want = append(r.want, pl...)
			}
			r.stream = append(r.stream, vf10Repeat(h.Pattern, n, h.Seed)...)
			r.markFound = h.Packets > 0
		default:
			r.stream = vf10Repeat(h.Pattern, n, h.Seed)
		}
		return
	}
	switch h.Kind {
	case vf10HSRaw:
		r.stream = vf10Repeat(h.Pattern, n, h.Seed)
	case vf10HSMarkBadMA:
		y := vf10Repeat(h.Pattern, refss.KeySize, h.Seed)
		s := &refss.Session{Kind: refss.KindUniformDH, Secret: c.srv.Secret, Hour: c.hello.EpochHour, Y: y}
		switch h.MacKind % 4 {
		case 0: // one bit of the right MAC inverted
			resp := s.Response(vf10Repeat(h.Pattern, pad, h.Seed+1))
			r.stream = refss.CorruptResponse(resp, refss.FieldMAC, h.Trunc%(refss.MacLen*8))
		case 1: // MAC for an hour the client did not send
			s.Hour += 5
			r.stream = s.Response(vf10Repeat(h.Pattern, pad, h.Seed+1))
		case 2: // the mark twice: the first one is followed by padding, not by the MAC
			inner := s.Response(nil)[refss.KeySize : refss.KeySize+refss.MacLen]
			p := append(append([]byte(nil), inner...), vf10Repeat(h.Pattern, pad%(refss.MaxPad-refss.MacLen), h.Seed+1)...)
			r.stream = s.Response(p)
		case 3: // mark, then nothing but pattern
			resp := s.Response(vf10Repeat(h.Pattern, pad, h.Seed+1))
			r.stream = append(resp[:len(resp)-refss.MacLen], vf10Repeat(h.Pattern, refss.MacLen, h.Seed+2)...)
		}
		r.respLen = len(r.stream)
		r.stream = append(r.stream, vf10Repeat(h.Pattern, n, h.Seed+3)...)
		r.markFound = true
	case vf10HSTruncated:
		c.udhSession(h.Seed)
		resp := c.sess.Response(vf10Repeat(h.Pattern, pad, h.Seed+1))
		cut := h.Trunc % (len(resp) + 1)
		r.stream = resp[:cut]
		r.respLen = len(resp)
		r.markFound = cut >= len(resp)-refss.MacLen && cut >= refss.KeySize+2*refss.MacLen
	case vf10HSValidTail:
		c.udhSession(h.Seed)
		r.stream = c.sess.Response(vf10Repeat(h.Pattern, pad, h.Seed+1))
		r.respLen = len(r.stream)
		for i := 0; i < h.Packets; i++ {
			pl := vf10Repeat(h.Pattern, 1+(i*331+len(h.Pattern))%refss.MaxPayload, h.Seed+uint64(i))
			r.stream = append(r.stream, c.sess.Packet(refss.FlagPayload, pl, i%3)...)
			r.want = append(r.want, pl...)
		}
		r.stream = append(r.stream, vf10Repeat(h.Pattern, n, h.Seed+3)...)
		r.markFound = true
	case vf10HSOddY:
		s := &refss.Session{Kind: refss.KindUniformDH, Secret: c.srv.Secret, Hour: c.hello.EpochHour, Y: vf10OddY(h.YKind)}
		r.stream = s.Response(vf10Repeat(h.Pattern, pad, h.Seed+1))
		r.respLen = len(r.stream)
		r.stream = append(r.stream, vf10Repeat(h.Pattern, n, h.Seed+3)...)
		r.markFound = true
	}
}

// vf10RunHS runs one handshake-stage case; "" or a violation / INFRA message.
func vf10RunHS(h *vf10HS) (string, *vf10HSResult) {
	r := &vf10HSResult{}
	c, err := vf10Dial(h.Seed, h.Ticket, h.Cache)
	if err != nil {
		return "INFRA: " + err.Error(), r
	}
	defer c.close()
	c.ep.SetBuf(h.Buf)
	if msg := c.readHello(); msg != "" {
		return msg, r
	}
	h.build(c, r)
	fin := func(msg string) (string, *vf10HSResult) {
		r.dialOK = c.ep.SetupDone() && c.ep.SetupErr() == nil
		r.dialErr, r.readErr = c.ep.SetupErr(), c.ep.ReadErr()
		r.consumed, r.delivered = c.n.Consumed(wire.B), c.ep.GotLen()
		return msg, r
	}
	if msg := c.feed(r.stream, h.Chunks, h.Burst); msg != "" {
		return fin(msg)
	}
	if msg := c.end(h.Ending, int64(len(r.stream))); msg != "" {
		return fin(msg)
	}
	if msg := c.deadlines(); msg != "" {
		return fin(msg)
	}
	got := c.ep.Got()
	if !vf10IsPrefix(got, r.want) {
		return fin(fmt.Sprintf("VIOL[c10-scramblesuit-bogus-data]: the client delivered %d bytes that are not a prefix of the %d bytes carried by well-formed packets (first difference at %d)", len(got), len(r.want), vf15FirstDiff(got, r.want)))
	}
	if h.Buf >= 65536 && c.ep.SetupErr() == nil && len(got) != len(r.want) {
		return fin(fmt.Sprintf("VIOL[c10-scramblesuit-delivery]: %d well-formed payload bytes preceded the first bad packet / the end of the input, the client delivered %d before reporting %v", len(r.want), len(got), c.ep.ReadErr()))
	}
	return fin("")
}

func vf10HSCase(c *ev.Collector, base string, h *vf10HS, r *vf10HSResult, keep bool) {
	cls := []string{base}
	if base == "scramblesuit-handshake" {
		cls = append(cls, base+"-"+vf10HSKindNames[h.Kind], base+"-end-"+vf10EndNames[h.Ending])
		if h.Ticket {
			cls = append(cls, base+"-after-ticket-handshake")
		}
		switch {
		case len(r.stream) >= 1<<20:
			cls = append(cls, base+"-1MiB")
		case len(r.stream) >= 65536:
			cls = append(cls, base+"->=64KiB")
		}
		if r.dialOK {
			cls = append(cls, base+"-dial-succeeded")
		}
		if r.delivered > 0 {
			cls = append(cls, base+"-data-delivered")
		}
	}
	if !keep {
		c.Case(0, false, cls, nil)
		return
	}
	c.Case(ev.Hash(h.Seed, h.Ticket, h.Kind, r.stream, fmt.Sprint(len(h.Chunks), h.Burst, h.Ending, h.Buf)), r.markFound, cls, func() any {
		return map[string]any{"stage": base, "kind": vf10HSKindNames[h.Kind], "ticket_handshake": h.Ticket, "stream_bytes": len(r.stream), "stream_head": ev.Hex(r.stream),
			"chunks": vf10Short(h.Chunks), "burst": h.Burst, "ending": vf10EndNames[h.Ending], "reader_buffer": h.Buf,
			"dial_ok": r.dialOK, "dial_error": fmt.Sprint(r.dialErr), "read_error": fmt.Sprint(r.readErr), "bytes_read": r.consumed, "delivered": r.delivered}
	})
}

const vf10HSRule = "hostile bytes in place of the UniformDH response, or right after a ticket handshake (ticket stored in-package): raw patterns of 0 .. 1 MiB incl. the lengths around 192 / 224 / 1516 / 1532 / 2 x 1532; Y | P | correct mark (keyed with the shared secret) | wrong MAC (one bit, wrong hour, mark repeated inside the padding, pattern) | tail; a valid response truncated at any offset; a valid response followed by 0..3 valid packets and garbage; a degenerate public key (0, 1, p-1, p, p+1, 2^1536-1) with valid mark and MAC followed by garbage; chunk plans (all at once, bytewise, 1532-aligned, small, mixed), 1..1000 chunks between waits, reader buffers 65536/1/7/1427; ended by EOF, an injected read error or the fired handshake deadline; oracle: no panic, no wedge, Dial (or the Read after it) returns an error at quiescence once the input has ended, a failing handshake reads <= 2 x 1532 bytes, receiveBuffer / receiveDecodedBuffer <= 4512 bytes, delivered bytes = payload of the valid packets, deadline armed before the first Read and cleared (last call zero) after success, the deadline ending finds a deadline armed iff Dial is still running; non-trivial = the response parser got past its length test and found the mark (or valid packets were processed)"

func vf10GenChunks(rt *rapid.T, n int) ([]int, int) {
	var chunks []int
	switch rapid.IntRange(0, 6).Draw(rt, "plan") {
	case 0: // all at once
	case 1:
		chunks = []int{1}
	case 2:
		chunks = []int{maxHandshakeLength}
	case 3:
		chunks = []int{rapid.SampledFrom([]int{191, 192, 193, 223, 224, 225, 1447, 1448, 1449, 1531, 1533, 4096}).Draw(rt, "chunk")}
	case 4:
		chunks = rapid.SliceOfN(rapid.IntRange(1, 64), 1, 16).Draw(rt, "smallChunks")
	case 5:
		chunks = rapid.SliceOfN(rapid.IntRange(1, 3000), 1, 12).Draw(rt, "chunks")
	case 6:
		chunks = []int{1, n}
	}
	return chunks, rapid.SampledFrom([]int{1, 1, 2, 5, 1000}).Draw(rt, "burst")
}

func vf10GenHS(rt *rapid.T) *vf10HS {
	h := &vf10HS{Seed: rapid.Uint64Range(0, 1<<20).Draw(rt, "seed")}
	h.Ticket = rapid.IntRange(0, 3).Draw(rt, "ticketHandshake") == 0
	h.Kind = rapid.IntRange(0, vf10HSKinds-1).Draw(rt, "kind")
	switch rapid.IntRange(0, 3).Draw(rt, "patternKind") {
	case 0:
		h.Pattern = nil // pseudo-random filler
	case 1:
		h.Pattern = []byte{rapid.Byte().Draw(rt, "patternByte")}
	default:
		h.Pattern = rapid.SliceOfN(rapid.Byte(), 1, 64).Draw(rt, "pattern")
	}
	switch rapid.IntRange(0, 9).Draw(rt, "lenKind") {
	case 0, 1, 2:
		h.N = rapid.SampledFrom([]int{0, 1, 15, 16, 17, 20, 21, 22, 191, 192, 193, 223, 224, 225, 1515, 1516, 1517, 1531, 1532, 1533,
			2*1532 - 1, 2 * 1532, 2*1532 + 1, 1532 + 1448}).Draw(rt, "nEdge")
	case 3, 4, 5:
		h.N = rapid.IntRange(0, 4096).Draw(rt, "nSmall")
	case 6, 7:
		h.N = rapid.IntRange(4097, 70000).Draw(rt, "nMedium")
	case 8:
		h.N = 1 << 20
	default:
		h.N = rapid.IntRange(70000, 1<<20).Draw(rt, "nLarge")
	}
	h.Pad = rapid.SampledFrom([]int{0, 1, 15, 16, 17, 33, 100, 700, refss.MaxPad - 1, refss.MaxPad}).Draw(rt, "pad")
	if rapid.Bool().Draw(rt, "padAny") {
		h.Pad = rapid.IntRange(0, refss.MaxPad).Draw(rt, "padValue")
	}
	h.Trunc = rapid.IntRange(0, 2000).Draw(rt, "trunc")
	if h.Kind == vf10HSTruncated && rapid.Bool().Draw(rt, "truncNearEnd") {
		// inside the trailing mark / MAC
		h.Trunc = refss.KeySize + h.Pad + 2*refss.MacLen - rapid.IntRange(0, 2*refss.MacLen).Draw(rt, "truncTail")
	}
	h.MacKind = rapid.IntRange(0, 3).Draw(rt, "macKind")
	h.YKind = rapid.IntRange(0, 5).Draw(rt, "yKind")
	h.Packets = rapid.IntRange(0, 3).Draw(rt, "packets")
	h.Chunks, h.Burst = vf10GenChunks(rt, h.N)
	h.Ending = rapid.IntRange(0, 2).Draw(rt, "ending")
	h.Buf = vf10BufSizes[rapid.IntRange(0, len(vf10BufSizes)-1).Draw(rt, "buf")]
	return h
}

func TestVerifC10ScramblesuitHandshake(t *testing.T) {
	if err := vf15Anchors(); err != nil {
		t.Fatalf("INFRA: reference server anchors: %v", err)
	}
	c := vf10Ev()
	c.Rule("scramblesuit-handshake: " + vf10HSRule + "; fingerprint = stream + plan")
	for _, k := range vf10HSKindNames {
		c.Floor("scramblesuit-handshake-"+k+"/scramblesuit-handshake", 0.08)
	}
	c.Floor("scramblesuit-handshake-1MiB/scramblesuit-handshake", 0.03)
	c.Floor("scramblesuit-handshake-end-deadline/scramblesuit-handshake", 0.15)
	c.Floor("scramblesuit-handshake-after-ticket-handshake/scramblesuit-handshake", 0.10)
	rapid.Check(t, func(rt *rapid.T) {
		h := vf10GenHS(rt)
		msg, r := vf10RunHS(h)
		if vf10Unstoppable(msg) {
			vf10Abort("TestVerifC10ScramblesuitHandshake", msg+"\n"+h.describe(r))
		}
		if msg != "" {
			rt.Fatalf("%s\n%s", msg, h.describe(r))
		}
		vf10HSCase(c, "scramblesuit-handshake", h, r, true)
	})
}

// vf10DecodeHS maps fuzz input onto the same case structure.
func vf10DecodeHS(pattern, plan []byte, a uint32, b uint16) *vf10HS {
	if len(pattern) > 2048 {
		pattern = pattern[:2048]
	}
	h := &vf10HS{Seed: 0xf022, Cache: true, Pattern: pattern}
	h.Kind = int(a&7) % vf10HSKinds
	h.Ticket = a>>3&1 == 1
	h.Ending = int(a>>4&3) % 3
	h.Buf = vf10BufSizes[a>>6&3]
	h.Burst = []int{1, 1, 2, 5, 16, 64, 256, 1000}[a>>8&7]
	h.Pad = int(a>>11&0x7ff) % (refss.MaxPad + 1)
	h.Packets = int(a >> 22 & 3)
	h.YKind = int(a >> 24 & 7)
	h.MacKind = int(a >> 27 & 3)
	h.N = len(pattern) << (b & 15)
	if len(pattern) == 0 {
		h.N = 1 << (b & 15)
	}
	if h.N > 1<<20 {
		h.N = 1 << 20
	}
	h.Trunc = int(b >> 4)
	h.Chunks = vf10Chunks(plan)
	return h
}

func FuzzVerifC10ScramblesuitHandshake(f *testing.F) {
	if err := vf15Anchors(); err != nil {
		f.Fatalf("INFRA: reference server anchors: %v", err)
	}
	c := vf10Ev()
	c.Rule("scramblesuit-fuzz-handshake: (pattern, chunk plan, a, b) decoded into the structure of scramblesuit-handshake: kind a&7, ticket handshake a>>3&1, ending a>>4&3, reader buffer a>>6&3, burst a>>8&7, padding a>>11, valid packets a>>22&3, degenerate key a>>24&7, wrong-MAC kind a>>27&3, length = len(pattern) << (b&15) capped at 1 MiB, truncation b>>4, plan byte < 0x80: byte+1 bytes else (byte-0x7f)*512; fixed client key (arguments parsed once per process); oracle as scramblesuit-handshake")
	for kind := uint32(0); kind < vf10HSKinds; kind++ {
		for end := uint32(0); end < 3; end++ {
			f.Add([]byte{0xa5}, []byte{}, kind|end<<4|17<<11|2<<22|kind<<24|end<<27, uint16(8|230<<4))
			f.Add([]byte("scramblesuit"), []byte{0, 0x82}, kind|1<<3|end<<4|1<<6|3<<8, uint16(12|239<<4))
		}
	}
	f.Add([]byte{}, []byte{}, uint32(0), uint16(15))
	f.Add([]byte{0}, []byte{0x7f, 0x7f}, uint32(0|2<<4|7<<8), uint16(15))
	f.Add(bytes.Repeat([]byte{0xff}, 192), []byte{0xbf}, uint32(1|1308<<11), uint16(4))
	f.Add([]byte{1, 2, 3}, []byte{15, 15, 0x80}, uint32(2|17<<11), uint16(0|240<<4))
	f.Add([]byte{1, 2, 3}, []byte{}, uint32(2|17<<11), uint16(0|225<<4))
	f.Fuzz(func(t *testing.T, pattern, plan []byte, a uint32, b uint16) {
		h := vf10DecodeHS(pattern, plan, a, b)
		msg, r := vf10RunHS(h)
		if vf10Unstoppable(msg) {
			vf10Abort("FuzzVerifC10ScramblesuitHandshake", msg+"\n"+h.describe(r)+fmt.Sprintf("\n  fuzz input: pattern=%x plan=%x a=%#x b=%#x", pattern, plan, a, b))
		}
		if msg != "" {
			t.Fatalf("%s\n%s", msg, h.describe(r))
		}
		vf10HSCase(c, "scramblesuit-fuzz-handshake", h, r, vf10FuzzCases.Add(1) <= vf10FuzzFingerprintCap)
	})
}

// TestVerifC10ScramblesuitHandshakeMemory feeds 8 MiB of bytes without a mark
// to a handshaking client and measures the retained heap.
func TestVerifC10ScramblesuitHandshakeMemory(t *testing.T) {
	c := vf10Ev()
	c.Rule("scramblesuit-handshake-memory: 8 MiB of bytes that never contain the mark are offered to a client waiting for the UniformDH response in 64 KiB segments; after a forced GC the heap retained since before the feed must stay under 2 MiB and the client must have stopped reading after <= 2 x 1532 bytes (a handshake that buffers its input would retain >= 8 MiB)")
	cl, err := vf10Dial(0x3e3, false, false)
	if err != nil {
		t.Fatalf("INFRA: %v", err)
	}
	defer cl.close()
	if msg := cl.readHello(); msg != "" {
		t.Fatalf("%s", msg)
	}
	chunk := bytes.Repeat([]byte{0xa5}, 65536)
	runtime.GC()
	var m0, m1 runtime.MemStats
	runtime.ReadMemStats(&m0)
	for i := 0; i < 128 && !cl.ep.Exited(); i++ {
		// once the client has given up nothing more is offered: what stays on the
		// wire is held by the harness, not by the client
		cl.n.Inject(wire.B, chunk)
		cl.n.ReleaseAll(wire.B)
		if msg := cl.quiesce(); msg != "" {
			vf10Abort("TestVerifC10ScramblesuitHandshakeMemory", msg)
		}
	}
	runtime.GC()
	runtime.ReadMemStats(&m1)
	grown := int64(m1.HeapAlloc) - int64(m0.HeapAlloc)
	if pv, st := cl.ep.Panic(); pv != nil {
		t.Fatalf("VIOL[c10-scramblesuit-panic]: %v\n%s", pv, st)
	}
	if grown > 2<<20 {
		t.Fatalf("VIOL[c10-scramblesuit-buffer-growth]: the heap retained %d bytes more after 8 MiB of junk were offered to a handshaking client: input is being buffered without bound", grown)
	}
	if !cl.ep.Exited() || cl.ep.SetupErr() == nil {
		t.Fatalf("VIOL[c10-scramblesuit-handshake-unbounded]: after 8 MiB without a mark Dial has not failed (done=%v err=%v)", cl.ep.SetupDone(), cl.ep.SetupErr())
	}
	c.Bulk(1, 1)
	c.Class("scramblesuit-handshake-memory", 1)
	c.Sample(ev.Hash("scramblesuit-mem"), map[string]any{"stage": "scramblesuit-handshake-memory", "heap_growth_bytes": grown, "dial_error": fmt.Sprint(cl.ep.SetupErr())})
}
