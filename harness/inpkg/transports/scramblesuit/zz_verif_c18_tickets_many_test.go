//go:build verif

package scramblesuit

// C18 (f): the ticket store with MANY bridge addresses, across restarts.
//
// The number of distinct bridge addresses that hold a ticket at once is a
// generated dimension (1..64; IPv4 and IPv6 address strings of different
// lengths, so the file size is no multiple of anything convenient).  Tickets are
// stored and redeemed through storeTicket / getTicket; at generated points, and
// always after the store has reached its largest size, the client "restarts":
// a fresh Transport.ClientFactory on the same state directory.  No crashes here
// (the crash-point enumeration is a unit of its own).
//
// Oracle: every restart succeeds (state the program wrote itself never blocks
// start-up); the loaded store offers, for every address, exactly the ticket
// that was stored for it and not yet redeemed (model: map address -> ticket),
// and nothing for any other address.

import (
	"encoding/hex"
	"fmt"
	"net"
	"os"
	"path/filepath"
	"sort"
	"strings"
	"testing"

	"pgregory.net/rapid"

	"gitlab.com/yawning/obfs4.git/internal/verifkit/detrand"
	"gitlab.com/yawning/obfs4.git/internal/verifkit/ev"
)

// vf18ManyAddr: the k-th address of a case; lengths vary from 9 to 47 characters.
func vf18ManyAddr(salt, k int) string {
	x := uint32(salt*2654435761 + k*40503 + 17)
	port := 1 + int(x>>7)%65535
	switch k % 5 {
	case 0:
		return (&net.TCPAddr{IP: net.IPv4(byte(1+k%9), byte(x>>3)%10, byte(k), byte(x>>11)%100), Port: port}).String()
	case 1:
		return (&net.TCPAddr{IP: net.IPv4(byte(100+k), byte(x>>5), byte(200+x>>9%50), byte(k+101)), Port: 10000 + port%50000}).String()
	case 2:
		return (&net.TCPAddr{IP: net.ParseIP(fmt.Sprintf("2001:db8::%x", k+1)), Port: port % 100}).String()
	case 3:
		return (&net.TCPAddr{IP: net.ParseIP(fmt.Sprintf("2001:db8:%x:%x:%x:%x:%x:%x", 0x1000+k, x&0xffff, 0x2222, 0xabcd, (x>>8)&0xffff|0x1000, 0xf000+k)), Port: 10000 + port%50000}).String()
	}
	return (&net.TCPAddr{IP: net.ParseIP(fmt.Sprintf("fd00:%x::%x:%x", k+1, x&0xfff, k+7)), Port: port}).String()
}

func TestVerifC18TicketsManyAddresses(t *testing.T) {
	e := ev.For("C18")
	e.Rule("tickets-many: N = 1..64 distinct bridge addresses (IPv4 and IPv6 strings of 9-47 characters) receive a ticket each through storeTicket, mixed with getTicket of held addresses (redeem), replacing stores and restarts (fresh Transport.ClientFactory + loadTicketStore on the same state directory) at generated points; a restart always follows the point at which the most addresses hold a ticket; non-trivial = a restart with >= 16 addresses holding a ticket; fingerprint = operation list")
	e.Floor("tickets-many-restart-with->=16-addresses/tickets-many", 0.35)
	e.Floor("tickets-many-restart-with->=40-addresses/tickets-many", 0.1)
	root := vf18ConcTempRoot()
	rapid.Check(t, func(rt *rapid.T) {
		dir, err := os.MkdirTemp(root, "vf18-many-*")
		if err != nil {
			vf18Inconclusive("temp dir: %v", err)
		}
		defer os.RemoveAll(dir)
		salt := rapid.IntRange(0, 4095).Draw(rt, "salt")
		n := rapid.SampledFrom([]int{40, 64, 16, 48, 29, 41, 17, 30, 15, 28, 20, 14, 13, 5, 2, 1}).Draw(rt, "addresses")
		if rapid.IntRange(0, 3).Draw(rt, "anyN") == 0 {
			n = rapid.IntRange(1, 64).Draw(rt, "n")
		}
		store, err := loadTicketStore(dir)
		if err != nil {
			rt.Fatalf("VIOL[c18-ticket-load-blocked]: loadTicketStore on an empty directory: %v", err)
		}
		model := map[string]string{} // address -> hex(key|ticket)
		var hist []string
		ticketNo := 0
		maxHeld, maxAtRestart := 0, 0
		restart := func(why string) {
			hist = append(hist, fmt.Sprintf("restart(%s, %d addresses hold a ticket)", why, len(model)))
			fi, _ := os.Stat(filepath.Join(dir, ticketFile))
			size := int64(-1)
			if fi != nil {
				size = fi.Size()
			}
			if _, ferr := (&Transport{}).ClientFactory(dir); ferr != nil {
				rt.Fatalf("VIOL[c18-ticket-load-blocked]: restart with tickets for %d bridge addresses on disk (%s is %d bytes): Transport.ClientFactory fails, start-up is blocked by state the program wrote itself: %v\nhistory: %s", len(model), ticketFile, size, ferr, strings.Join(hist, " ; "))
			}
			s2, lerr := loadTicketStore(dir)
			if lerr != nil {
				rt.Fatalf("VIOL[c18-ticket-load-blocked]: loadTicketStore fails with %d addresses on disk (%d bytes): %v\nhistory: %s", len(model), size, lerr, strings.Join(hist, " ; "))
			}
			got := vf18StoreContent(s2)
			for a, want := range model {
				if g, ok := got[a]; !ok || g.raw != want {
					have := "nothing"
					if ok {
						have = g.raw[:8] + ".."
					}
					rt.Fatalf("VIOL[c18-ticket-lost-without-crash]: after a restart (no crash) the ticket %s.. stored for %s and never redeemed is not offered any more (offered: %s); %d addresses, file %d bytes\nhistory: %s", want[:8], a, have, len(model), size, strings.Join(hist, " ; "))
				}
			}
			for a, g := range got {
				if _, ok := model[a]; !ok {
					rt.Fatalf("VIOL[c18-ticket-invented]: after a restart the store offers ticket %s.. for %s, for which no unredeemed ticket exists\nhistory: %s", g.raw[:8], a, strings.Join(hist, " ; "))
				}
			}
			if len(model) > maxAtRestart {
				maxAtRestart = len(model)
			}
			store = s2 // the restarted client goes on with the loaded store
		}
		// growth phase: every address gets a ticket, with redeems / replacements / restarts in between
		for k := 0; k < n; k++ {
			addr := vf18ManyAddr(salt, k)
			ticketNo++
			raw := hex.EncodeToString(detrand.Bytes(uint64(8000000+salt*100+ticketNo), ticketKeyLength+ticketLength))
			store.storeTicket(vf18Addr(addr), vf18Raw2bytes(raw))
			model[vf18Addr(addr).String()] = raw
			hist = append(hist, "store("+addr+")")
			if len(model) > maxHeld {
				maxHeld = len(model)
			}
			switch rapid.IntRange(0, 19).Draw(rt, "between") {
			case 0:
				restart("mid-growth")
			case 1, 2:
				if len(model) > 0 {
					var held []string
					for a := range model {
						held = append(held, a)
					}
					sort.Strings(held)
					a := held[rapid.IntRange(0, len(held)-1).Draw(rt, "redeem")]
					tk, _ := store.getTicket(vf18Addr(a))
					hist = append(hist, "get("+a+")")
					if tk == nil {
						rt.Fatalf("VIOL[c18-ticket-lost-without-crash]: getTicket(%s) offers nothing although a ticket was stored for it and never redeemed\nhistory: %s", a, strings.Join(hist, " ; "))
					}
					if g := hex.EncodeToString(append(append([]byte(nil), tk.key[:]...), tk.ticket[:]...)); g != model[a] {
						rt.Fatalf("VIOL[c18-ticket-invented]: getTicket(%s) hands out %s.., stored was %s..\nhistory: %s", a, g[:8], model[a][:8], strings.Join(hist, " ; "))
					}
					delete(model, a)
				}
			case 3:
				// a newer ticket for an address that already holds one
				ticketNo++
				raw2 := hex.EncodeToString(detrand.Bytes(uint64(8000000+salt*100+ticketNo), ticketKeyLength+ticketLength))
				store.storeTicket(vf18Addr(addr), vf18Raw2bytes(raw2))
				model[vf18Addr(addr).String()] = raw2
				hist = append(hist, "store-again("+addr+")")
			}
		}
		restart("after growth")
		// shrink a little and restart once more
		var held []string
		for a := range model {
			held = append(held, a)
		}
		sort.Strings(held)
		for i := 0; i < len(held) && i < rapid.IntRange(0, 5).Draw(rt, "redeemAfter"); i++ {
			if tk, _ := store.getTicket(vf18Addr(held[i])); tk == nil {
				rt.Fatalf("VIOL[c18-ticket-lost-without-crash]: getTicket(%s) offers nothing after the restart\nhistory: %s", held[i], strings.Join(hist, " ; "))
			}
			delete(model, held[i])
			hist = append(hist, "get("+held[i]+")")
		}
		restart("after redeeming")
		cls := []string{"tickets-many"}
		if maxAtRestart >= 16 {
			cls = append(cls, "tickets-many-restart-with->=16-addresses")
		}
		if maxAtRestart >= 40 {
			cls = append(cls, "tickets-many-restart-with->=40-addresses")
		}
		h := hist
		e.Case(ev.Hash("tickets-many", strings.Join(hist, ";")), maxAtRestart >= 16, cls, func() any {
			if len(h) > 12 {
				h = append(append([]string(nil), h[:6]...), h[len(h)-6:]...)
			}
			return map[string]any{"part": "tickets-many", "addresses": n, "most_addresses_at_a_restart": maxAtRestart, "operations(first and last 6)": h}
		})
	})
}

func vf18Raw2bytes(h string) []byte {
	b, _ := hex.DecodeString(h)
	return b
}
