//go:build verif

package scramblesuit

// C18 (d): concurrent checkpoints of ONE ticket store.
//
// Several connections of one client factory share one ssTicketStore: a NewTicket
// packet calls storeTicket, every handshake calls getTicket, and each of them
// checkpoints the whole store to scramblesuit_tickets.json.  Here G goroutines
// call exactly these two entry points at the same moment, in barrier-separated
// batches whose operations change the number of tickets held (so checkpoints
// that overlap in time differ in length), while a reader goroutine keeps taking
// complete reads of the file.
//
// Oracles (property C18, ticket clause: "at worst forgotten but never blocks
// start-up"; nothing invented):
//   - every complete read of the file taken while the goroutines run, and the
//     file after every batch, loads: loadTicketStore and Transport.ClientFactory
//     return without error (a reader may see the old or the new file, rename is
//     atomic, but never a torn or spliced one);
//   - mid-run: every loaded ticket was handed to storeTicket for that address by
//     a call that had started before the read ended, and had not been returned
//     by a getTicket call that completed before the read started;
//   - after a batch (all goroutines finished): every loaded ticket was given to
//     storeTicket for that address and has not been returned by a (completed)
//     getTicket - redeemed tickets must be gone, removal before use is what makes
//     "at most once" survive a restart.  A ticket that was superseded by a later
//     storeTicket but never redeemed, and a missing ticket, mean that something
//     newer was "forgotten", which the property allows: both are only counted.

import (
	"encoding/hex"
	"fmt"
	"os"
	"path/filepath"
	"runtime"
	"strings"
	"sync"
	"sync/atomic"
	"testing"
	"time"

	"pgregory.net/rapid"

	"gitlab.com/yawning/obfs4.git/internal/verifkit/detrand"
	"gitlab.com/yawning/obfs4.git/internal/verifkit/ev"
)

type vf18ConcOpRec struct {
	op       vf18TicketOp
	start    int64
	end      int64  // 0 while running
	returned string // get: hex of the ticket handed out ("" none)
}

type vf18ConcLog struct {
	mu  sync.Mutex
	seq int64
	ops []*vf18ConcOpRec
}

func (l *vf18ConcLog) tick() int64 {
	l.mu.Lock()
	defer l.mu.Unlock()
	l.seq++
	return l.seq
}

func (l *vf18ConcLog) begin(op vf18TicketOp) *vf18ConcOpRec {
	l.mu.Lock()
	defer l.mu.Unlock()
	l.seq++
	r := &vf18ConcOpRec{op: op, start: l.seq}
	l.ops = append(l.ops, r)
	return r
}

func (l *vf18ConcLog) finish(r *vf18ConcOpRec, returned string) {
	l.mu.Lock()
	defer l.mu.Unlock()
	l.seq++
	r.end, r.returned = l.seq, returned
}

// explainMidRun: why may (addr, raw) be in a file read during [readStart, readEnd]?
func (l *vf18ConcLog) explainMidRun(addr, raw string, readStart, readEnd int64) string {
	l.mu.Lock()
	defer l.mu.Unlock()
	stored := false
	for _, r := range l.ops {
		a := vf18Addr(r.op.Addr).String()
		if r.op.Op == "store" && a == addr && strings.EqualFold(r.op.Raw, raw) && r.start < readEnd {
			stored = true
		}
		if r.op.Op == "get" && r.returned == raw && r.end != 0 && r.end < readStart {
			return fmt.Sprintf("ticket %s.. for %s had been handed out by a getTicket call that completed before the read started", raw[:8], addr)
		}
	}
	if !stored {
		return fmt.Sprintf("ticket %s.. was never given to storeTicket for %s (before the read ended)", raw[:8], addr)
	}
	return ""
}

func vf18ConcTempRoot() string {
	if d, err := os.MkdirTemp("/dev/shm", "vf18-probe-*"); err == nil {
		os.Remove(d)
		return "/dev/shm"
	}
	return ""
}

func TestVerifC18TicketsConcurrent(t *testing.T) {
	e := ev.For("C18")
	e.Rule("tickets-concurrent: one ssTicketStore (loadTicketStore on a temp dir), 1-4 barrier-separated batches; in each batch G = 2..8 goroutines are released together and each runs 1-3 storeTicket (144-byte key|ticket, unique) / getTicket calls over a pool of 2-8 bridge addresses; batch kinds grow (stores to addresses without a ticket), shrink (gets of held addresses) and mixed make the concurrent checkpoints differ in length; a reader goroutine takes complete reads of scramblesuit_tickets.json all the time and loads each into a fresh store on a copy; after every batch the directory itself is loaded; non-trivial = a batch in which at least two store/get calls were inside the store at the same moment (measured with an entry/exit counter) and the number of tickets held changed during the batch; fingerprint = plan")
	e.Assume("tickets-concurrent: the interleaving of the goroutines is sampled by the Go scheduler (also under -race), not enumerated; a complete read of the ticket file sees one inode (old or new file) because rename is atomic")
	e.Floor("tickets-concurrent-overlapping-checkpoints-of-different-length/tickets-concurrent", 0.3)
	root := vf18ConcTempRoot()
	rapid.Check(t, func(rt *rapid.T) {
		dir, err := os.MkdirTemp(root, "vf18-conc-*")
		if err != nil {
			vf18Inconclusive("temp dir: %v", err)
		}
		defer os.RemoveAll(dir)
		copyDir := filepath.Join(dir, "reader-copy")
		stateDir := filepath.Join(dir, "state")
		for _, d := range []string{copyDir, stateDir} {
			if err := os.Mkdir(d, 0o700); err != nil {
				vf18Inconclusive("mkdir: %v", err)
			}
		}
		allAddrs := []string{"192.0.2.1:443", "192.0.2.1:9001", "[2001:db8::7]:443", "198.51.100.23:80", "[2001:db8::7]:9001", "203.0.113.200:65535", "192.0.2.77:1", "[2001:db8::1:2]:8443"}
		pool := allAddrs[:rapid.IntRange(2, len(allAddrs)).Draw(rt, "pool")]
		G := rapid.IntRange(2, 8).Draw(rt, "goroutines")
		nb := rapid.IntRange(1, 4).Draw(rt, "batches")
		readDelay := time.Duration(rapid.SampledFrom([]int{0, 0, 5, 20, 100}).Draw(rt, "readDelay")) * time.Microsecond

		store, err := loadTicketStore(stateDir)
		if err != nil {
			rt.Fatalf("VIOL[c18-ticket-load-blocked]: loadTicketStore on an empty directory: %v", err)
		}
		log := &vf18ConcLog{}
		// cand[addr]: possible values at the last quiescent point ("" = no ticket)
		cand := map[string]map[string]bool{}
		holds := map[string]bool{} // generator's guess of which addresses hold a ticket (for the batch kinds)
		ticketNo := 0
		var plan []string
		nontrivial := false
		var maxInsideAll int32
		reads, forgotten, stale := 0, 0, 0

		for b := 0; b < nb; b++ {
			kind := rapid.SampledFrom([]string{"grow", "grow", "shrink", "mixed", "mixed"}).Draw(rt, "batchKind")
			ops := make([][]vf18TicketOp, G)
			for g := range ops {
				n := rapid.IntRange(1, 3).Draw(rt, "nops")
				for i := 0; i < n; i++ {
					wantStore := kind == "grow" || (kind == "mixed" && rapid.Bool().Draw(rt, "store"))
					if kind == "shrink" && len(holds) == 0 {
						wantStore = true
					}
					// prefer addresses that change the number of tickets held
					var pref []string
					for _, a := range pool {
						if holds[a] != wantStore {
							pref = append(pref, a)
						}
					}
					from := pool
					if len(pref) > 0 && rapid.IntRange(0, 3).Draw(rt, "prefer") > 0 {
						from = pref
					}
					addr := rapid.SampledFrom(from).Draw(rt, "addr")
					if wantStore {
						ticketNo++
						raw := hex.EncodeToString(detrand.Bytes(uint64(7000000+ticketNo), ticketKeyLength+ticketLength))
						ops[g] = append(ops[g], vf18TicketOp{Op: "store", Addr: addr, Raw: raw})
						holds[addr] = true
					} else {
						ops[g] = append(ops[g], vf18TicketOp{Op: "get", Addr: addr})
						delete(holds, addr)
					}
				}
			}
			plan = append(plan, fmt.Sprintf("batch %d (%s): %v", b, kind, ops))
			desc := func() string { return strings.Join(plan, "\n") }

			// candidates after this batch
			sizeMayChange := false
			touched := map[string]map[string]bool{}
			for g := range ops {
				last := map[string]string{}
				for _, op := range ops[g] {
					a := vf18Addr(op.Addr).String()
					if op.Op == "store" {
						last[a] = op.Raw
					} else {
						last[a] = ""
					}
				}
				for a, v := range last {
					if touched[a] == nil {
						touched[a] = map[string]bool{}
					}
					touched[a][v] = true
				}
			}
			for a, vals := range touched {
				before := cand[a]
				hadTicket := false
				for v := range before {
					if v != "" {
						hadTicket = true
					}
				}
				for v := range vals {
					if (v == "") == hadTicket || len(before) > 1 {
						sizeMayChange = true
					}
				}
				cand[a] = vals
			}

			// run the batch
			var inside, maxInside, arrived int32
			var violMu sync.Mutex
			var viol string
			setViol := func(s string) {
				violMu.Lock()
				if viol == "" {
					viol = s
				}
				violMu.Unlock()
			}
			start := make(chan struct{})
			var wg sync.WaitGroup
			for g := range ops {
				wg.Add(1)
				go func(g int) {
					defer wg.Done()
					defer func() {
						if p := recover(); p != nil {
							setViol(fmt.Sprintf("VIOL[c18-panic]: goroutine %d: %v", g, p))
						}
					}()
					<-start
					// Spin rendezvous: proceed only when all G goroutines are actually
					// running, so that the first calls begin within microseconds of each
					// other even on a loaded machine (channel wake-ups alone arrive too far
					// apart there: measured overlap share fell from ~85 % to ~50 %).
					atomic.AddInt32(&arrived, 1)
					for spins := 0; atomic.LoadInt32(&arrived) < int32(G) && spins < 1_000_000; spins++ {
						runtime.Gosched()
					}
					for _, op := range ops[g] {
						rec := log.begin(op)
						n := atomic.AddInt32(&inside, 1)
						for {
							m := atomic.LoadInt32(&maxInside)
							if n <= m || atomic.CompareAndSwapInt32(&maxInside, m, n) {
								break
							}
						}
						returned := ""
						if op.Op == "store" {
							raw, _ := hex.DecodeString(op.Raw)
							store.storeTicket(vf18Addr(op.Addr), raw)
						} else if tk, _ := store.getTicket(vf18Addr(op.Addr)); tk != nil {
							returned = hex.EncodeToString(append(append([]byte(nil), tk.key[:]...), tk.ticket[:]...))
						}
						atomic.AddInt32(&inside, -1)
						log.finish(rec, returned)
					}
				}(g)
			}
			// the concurrent reader
			stop := make(chan struct{})
			readerDone := make(chan struct{})
			nreads := 0
			go func() {
				defer close(readerDone)
				defer func() {
					if p := recover(); p != nil {
						setViol(fmt.Sprintf("VIOL[c18-panic]: reader: %v", p))
					}
				}()
				for {
					select {
					case <-stop:
						return
					default:
					}
					if nreads >= 400 {
						<-stop
						return
					}
					t0 := log.tick()
					data, rerr := os.ReadFile(filepath.Join(stateDir, ticketFile))
					t1 := log.tick()
					if rerr == nil {
						nreads++
						if werr := os.WriteFile(filepath.Join(copyDir, ticketFile), data, 0o600); werr != nil {
							vf18Inconclusive("reader copy: %v", werr)
						}
						ls, lerr := loadTicketStore(copyDir)
						if lerr == nil {
							_, lerr = (&Transport{}).ClientFactory(copyDir)
						}
						if lerr != nil {
							setViol(fmt.Sprintf("VIOL[c18-ticket-load-blocked]: a complete read of %s taken while %d goroutines were storing/redeeming tickets does not load (%d bytes: %.120q): %v", ticketFile, G, len(data), data, lerr))
							<-stop
							return
						}
						for a, got := range vf18StoreContent(ls) {
							if why := log.explainMidRun(a, got.raw, t0, t1); why != "" {
								setViol(fmt.Sprintf("VIOL[c18-ticket-invented]: a complete read of %s taken while the goroutines were running holds a ticket that cannot be explained: %s", ticketFile, why))
								<-stop
								return
							}
						}
					} else if !os.IsNotExist(rerr) {
						vf18Inconclusive("reader: %v", rerr)
					}
					if readDelay > 0 {
						time.Sleep(readDelay)
					}
				}
			}()
			close(start)
			wg.Wait()
			close(stop)
			<-readerDone
			reads += nreads
			if viol != "" {
				rt.Fatalf("%s\n%s", viol, desc())
			}
			if maxInside > maxInsideAll {
				maxInsideAll = maxInside
			}
			if maxInside >= 2 && sizeMayChange {
				nontrivial = true
			}

			// quiescent: the directory must load, and hold only possible final values
			loaded, lerr := loadTicketStore(stateDir)
			if lerr == nil {
				_, lerr = (&Transport{}).ClientFactory(stateDir)
			}
			if lerr != nil {
				data, _ := os.ReadFile(filepath.Join(stateDir, ticketFile))
				rt.Fatalf("VIOL[c18-ticket-load-blocked]: with all goroutines finished the ticket store no longer loads, which blocks client start-up: %v\nfile (%d bytes): %.200q\n%s", lerr, len(data), data, desc())
			}
			content := vf18StoreContent(loaded)
			for a, got := range content {
				// (b) never given to storeTicket for that address, (c) returned by a
				// completed getTicket: violations.  All calls have completed here.
				if why := log.explainMidRun(a, got.raw, log.tick(), log.tick()); why != "" {
					rt.Fatalf("VIOL[c18-ticket-invented]: with all goroutines finished the file holds a ticket it must not hold: %s (a redeemed ticket must be gone, else it is used twice after a restart)\n%s", why, desc())
				}
				if !cand[a][strings.ToLower(got.raw)] {
					// superseded by a later storeTicket but never redeemed: the newer ticket
					// was "forgotten", which the property allows - counted, not flagged
					stale++
				}
			}
			for a, vals := range cand {
				if _, have := content[a]; !have && !vals[""] {
					forgotten++
				}
			}
			// what the file holds now is the starting point of the next batch
			for a := range cand {
				if got, have := content[a]; have {
					cand[a] = map[string]bool{strings.ToLower(got.raw): true}
				} else {
					cand[a] = map[string]bool{"": true}
				}
			}
			// ... as far as the file tells; the store's memory is what the next
			// checkpoint writes, so keep every value memory may still hold
			for a, got := range vf18StoreContent(store) {
				if cand[a] == nil {
					cand[a] = map[string]bool{}
				}
				cand[a][strings.ToLower(got.raw)] = true
			}
		}

		cls := []string{"tickets-concurrent"}
		if nontrivial {
			cls = append(cls, "tickets-concurrent-overlapping-checkpoints-of-different-length")
		}
		if maxInsideAll >= 4 {
			cls = append(cls, "tickets-concurrent->=4-calls-inside-at-once")
		}
		if stale > 0 {
			cls = append(cls, "tickets-concurrent-stale-but-unused-ticket-on-disk(allowed)")
		}
		if forgotten > 0 {
			cls = append(cls, "tickets-concurrent-ticket-forgotten-at-quiescence(allowed)")
		}
		e.Class("tickets-concurrent-midrun-reads", int64(reads))
		p := append([]string(nil), plan...)
		e.Case(ev.Hash("tickets-concurrent", strings.Join(plan, ";")), nontrivial, cls, func() any {
			return map[string]any{"part": "tickets-concurrent", "goroutines": G, "max_calls_inside_at_once": maxInsideAll, "midrun_reads": reads, "plan": p}
		})
	})
}
