//go:build verif

package scramblesuit

// C10, ScrambleSuit part (client role — all the tree has): no peer input or
// network fault can crash, wedge or bloat the endpoint.  This file holds the
// plumbing of the three stages (handshake, established, cut enumeration):
// the dialled client, waiting with the wedge rule, panic capture, the
// in-package buffer gauges and the deadline discipline read off the wire log.
//
// In-package dependencies: ssConn.receiveBuffer / receiveDecodedBuffer,
// ssClientFactory.ticketStore, ssTicketStore.storeTicket, maxHandshakeLength,
// maxSegmentLength, maxPayloadLength, ticketKeyLength, ticketLength,
// pktPrngSeedLength.  Helpers shared with the C15 files of this package:
// vf15Conn, vf15Addr, vf15Password, vf15Fill, vf15Secret, vf15Server, vf15TempDir.

import (
	"bytes"
	"errors"
	"fmt"
	"net"
	"os"
	"strings"
	"sync/atomic"
	"time"

	pt "gitlab.torproject.org/tpo/anti-censorship/pluggable-transports/goptlib"

	"gitlab.com/yawning/obfs4.git/internal/verifkit/detrand"
	"gitlab.com/yawning/obfs4.git/internal/verifkit/drive"
	"gitlab.com/yawning/obfs4.git/internal/verifkit/ev"
	"gitlab.com/yawning/obfs4.git/internal/verifkit/refss"
	"gitlab.com/yawning/obfs4.git/internal/verifkit/wire"
	"gitlab.com/yawning/obfs4.git/transports/base"
)

const (
	vf10Addr = "192.0.2.10:443"

	// What one connection may hold, from the code's own constants: the handshake
	// reads at most maxHandshakeLength per Read and stops at >= maxHandshakeLength
	// bytes without a mark; afterwards one segment is added per readPackets call.
	// The bounds are generous on purpose: the failure looked for is growth
	// proportional to the input.
	vf10MaxHandshakeRead = 2 * maxHandshakeLength
	vf10MaxBuffered      = 2*maxHandshakeLength + maxSegmentLength
	vf10MaxBufferCap     = 4 * vf10MaxBuffered

	vf10EndEOF      = 0
	vf10EndReadErr  = 1
	vf10EndDeadline = 2

	vf10FuzzFingerprintCap = 20000
)

var (
	vf10Injected   = errors.New("verif: injected network error")
	vf10EndNames   = []string{"EOF", "read-error", "deadline"}
	vf10FuzzCases  atomic.Int64
	vf10BufSizes   = []int{65536, 1, 7, 1427}
	vf10WedgeExtra = 60 * time.Second
)

func vf10Ev() *ev.Collector {
	id := "C10"
	if os.Getenv("VERIF_PROPERTY") == "C94" { // development runs of the ScrambleSuit part alone
		id = "C94"
	}
	c := ev.For(id)
	c.Assume("scramblesuit: the tree has the client role only; the peer is the harness's reference server verifkit/refss, which supplies valid MACs for hostile packets (a crash behind the 128-bit MAC is unreachable otherwise)")
	c.Assume("scramblesuit: buffer bounds are constants derived from the code's own limits (handshake: bytes read <= 2 x 1532; established: receiveBuffer and receiveDecodedBuffer <= 2 x 1532 + 1448 at quiescence, capacity <= 4 x that); liveness is decided at quiescence of the client goroutine, a wedge only after the 20 s watchdog plus 60 s")
	return c
}

// vf10Client is a dialled real client on side A of a gated wire.
type vf10Client struct {
	n       *wire.Net
	ep      *drive.Endpoint
	cf      base.ClientFactory
	dir     string
	cleanup func()
	secret  []byte
	srv     *refss.Server
	ticket  *refss.Ticket // stored before Dial: the client does a ticket handshake
	hello   *refss.Hello
	sess    *refss.Session
}

var vf10ArgsCache = map[uint64]any{}

// vf10Dial creates a factory on a fresh state directory (optionally with a
// stored ticket) and starts ParseArgs + Dial.  With cacheArgs the parsed
// arguments (client key pair) are reused between cases of one process, which
// the factory API permits; fuzz targets do that to save a modular
// exponentiation per execution.
func vf10Dial(seed uint64, withTicket, cacheArgs bool) (*vf10Client, error) {
	return vf10DialPre(seed, withTicket, cacheArgs, nil)
}

// vf10DialPre is vf10Dial with a hook that runs on the fresh wire before the
// client starts (fault injection that must be in place from the first byte).
func vf10DialPre(seed uint64, withTicket, cacheArgs bool, pre func(*wire.Net)) (*vf10Client, error) {
	detrand.Seed(seed)
	c := &vf10Client{secret: vf15Secret(seed, 0x10)}
	c.srv = vf15Server(c.secret)
	c.dir, c.cleanup = vf15TempDir()
	cf, err := (&Transport{}).ClientFactory(c.dir)
	if err != nil {
		c.cleanup()
		return nil, err
	}
	c.cf = cf
	if withTicket {
		c.ticket = c.srv.Auth.Issue(vf15Fill(seed, 0x11, 16))
		cf.(*ssClientFactory).ticketStore.storeTicket(vf15Addr(vf10Addr), c.ticket.Payload())
	}
	c.n = wire.New()
	n := c.n
	if pre != nil {
		pre(n)
	}
	c.ep = drive.Start(n, wire.A, func() (net.Conn, error) {
		var parsed any
		if cacheArgs {
			parsed = vf10ArgsCache[seed]
		}
		if parsed == nil {
			args := &pt.Args{}
			args.Add("password", vf15Password(c.secret))
			var err error
			if parsed, err = cf.ParseArgs(args); err != nil {
				return nil, fmt.Errorf("ParseArgs: %w", err)
			}
			if cacheArgs {
				if len(vf10ArgsCache) > 64 {
					vf10ArgsCache = map[uint64]any{}
				}
				vf10ArgsCache[seed] = parsed
			}
		}
		return cf.Dial("tcp", vf10Addr, func(network, address string) (net.Conn, error) {
			return &vf15Conn{Conn: n.Conn(wire.A), remote: vf15Addr(address)}, nil
		}, parsed)
	})
	return c, nil
}

func (c *vf10Client) close() {
	if conn := c.ep.Conn(); conn != nil {
		_ = conn.Close()
	}
	c.n.Shutdown()
	c.cleanup()
	detrand.Real()
}

// quiesce blocks until the client goroutine is parked with nothing deliverable
// or has finished.  A goroutine that is neither after the 20 s watchdog gets
// 60 s more before it is called a wedge.  A spin is recognised earlier by
// counting, not by time: more than a million Read calls on the connection
// without a single byte consumed and without returning.
func (c *vf10Client) quiesce() string {
	var err error
	for waited := time.Duration(0); waited < wire.WatchdogDefault+vf10WedgeExtra; waited += 2 * time.Second {
		r0, c0 := c.n.Reads(wire.A), c.n.Consumed(wire.B)
		if err = c.n.WaitQuiescentFor(2*time.Second, wire.A); err == nil {
			return ""
		}
		if dr := c.n.Reads(wire.A) - r0; dr > 1000000 && c.n.Consumed(wire.B) == c0 {
			return fmt.Sprintf("VIOL[c10-scramblesuit-spin]: the client called Read %d times on the connection in 2 s without consuming a byte and without returning (consumed %d of %d released bytes)\n%s",
				dr, c0, c.n.Released(wire.B), wire.Stacks())
		}
	}
	return fmt.Sprintf("VIOL[c10-scramblesuit-wedge]: the client neither returns nor waits for input (consumed %d of %d released bytes): %v", c.n.Consumed(wire.B), c.n.Released(wire.B), err)
}

// vf10Unstoppable reports whether msg is a verdict after which the client
// goroutine may still be running and cannot be stopped (it ignores errors of
// the closed connection): the process must not go on to further cases, they
// would compete with the spinning goroutines for the CPU.
func vf10Unstoppable(msg string) bool {
	return strings.Contains(msg, "VIOL[c10-scramblesuit-spin]") || strings.Contains(msg, "VIOL[c10-scramblesuit-wedge]")
}

// vf10Abort ends the test process with a failure verdict.
func vf10Abort(test, msg string) {
	fmt.Printf("--- FAIL: %s (the client goroutine cannot be stopped; test process aborted, no shrinking)\n    %s\nFAIL\n", test, msg)
	ev.Flush()
	os.Exit(1)
}

// wait is quiesce plus the checks made at every such point: panics and the
// buffer gauges.
func (c *vf10Client) wait() string {
	if msg := c.quiesce(); msg != "" {
		return msg
	}
	if p, st := c.ep.Panic(); p != nil {
		return fmt.Sprintf("VIOL[c10-scramblesuit-panic]: %v\n%s", p, st)
	}
	return c.gauges()
}

// gauges checks what the connection holds.
func (c *vf10Client) gauges() string {
	conn := c.ep.Conn()
	if conn == nil {
		// handshake not finished (or failed): the ssConn is not reachable, so the
		// gauge is the number of bytes the handshake has taken off the wire
		if got := c.n.Consumed(wire.B); !c.ep.SetupDone() || c.ep.SetupErr() != nil {
			if got > vf10MaxHandshakeRead {
				return fmt.Sprintf("VIOL[c10-scramblesuit-handshake-unbounded]: the handshake has read %d bytes without succeeding or failing (limit 2 x %d)", got, maxHandshakeLength)
			}
		}
		return ""
	}
	ss, ok := conn.(*ssConn)
	if !ok {
		return fmt.Sprintf("INFRA: Dial returned a %T", conn)
	}
	rb, db := ss.receiveBuffer, ss.receiveDecodedBuffer
	if rb.Len() > vf10MaxBuffered || db.Len() > vf10MaxBuffered || rb.Cap() > vf10MaxBufferCap || db.Cap() > vf10MaxBufferCap {
		return fmt.Sprintf("VIOL[c10-scramblesuit-buffer-growth]: receiveBuffer holds %d bytes (cap %d), receiveDecodedBuffer %d (cap %d) with a draining reader; limits %d / cap %d; %d bytes were released to the client",
			rb.Len(), rb.Cap(), db.Len(), db.Cap(), vf10MaxBuffered, vf10MaxBufferCap, c.n.Released(wire.B))
	}
	return ""
}

// readHello takes the client's first flight off the wire and parses it.  A
// client that the reference server does not understand is C15's business; here
// it only means that the case cannot be built.
func (c *vf10Client) readHello() string {
	if msg := c.wait(); msg != "" {
		return msg
	}
	blob := c.n.Take(wire.A)
	h, err := c.srv.ParseHello(blob)
	if err != nil {
		return fmt.Sprintf("INFRA: reference server cannot parse the client hello (%d bytes): %v", len(blob), err)
	}
	c.hello = h
	wantKind := refss.KindUniformDH
	if c.ticket != nil {
		wantKind = refss.KindTicket
	}
	if h.Kind != wantKind {
		return fmt.Sprintf("INFRA: client sent a %v handshake, the case needs %v", h.Kind, wantKind)
	}
	if h.Kind == refss.KindTicket {
		c.sess = refss.NewTicketSession(h.Ticket)
	}
	return ""
}

// udhSession computes the reference server's half of the exchange.
func (c *vf10Client) udhSession(seed uint64) {
	c.sess = c.srv.NewUDHSession(vf15Fill(seed, 0x12, refss.KeySize), seed%2 == 1, c.hello.X, c.hello.EpochHour)
}

// feed writes stream into the server->client direction and releases it in the
// given chunks (cycled), waiting for quiescence after every `burst` chunks;
// stops early once the client goroutine has finished.
func (c *vf10Client) feed(stream []byte, chunks []int, burst int) string {
	c.n.Inject(wire.B, stream)
	if burst < 1 {
		burst = 1
	}
	i := 0
	for c.n.Pending(wire.B) > 0 && !c.ep.Exited() {
		for k := 0; k < burst && c.n.Pending(wire.B) > 0; k++ {
			sz := c.n.Pending(wire.B)
			if len(chunks) > 0 {
				sz = chunks[i%len(chunks)]
				i++
				if i > 4096 { // a plan of tiny chunks over a huge stream: finish in one go
					sz = c.n.Pending(wire.B)
				}
			}
			if sz < 1 {
				sz = 1
			}
			c.n.Release(wire.B, sz)
		}
		if msg := c.wait(); msg != "" {
			return msg
		}
	}
	return ""
}

// end delivers the end of the input and demands that the call in progress
// returns.  The deadline ending must find a deadline armed while Dial is
// still running, and none afterwards.
func (c *vf10Client) end(how int, streamLen int64) string {
	c.n.ReleaseAll(wire.B)
	if msg := c.wait(); msg != "" {
		return msg
	}
	dialRunning := !c.ep.SetupDone()
	switch how {
	case vf10EndEOF:
		c.n.EOF(wire.B)
	case vf10EndReadErr:
		c.n.ReadErrAt(wire.B, streamLen, vf10Injected)
	case vf10EndDeadline:
		fired := !c.n.Closed(wire.A) && c.n.Fire(wire.A)
		switch {
		case dialRunning && !fired:
			return "VIOL[c10-scramblesuit-deadline]: Dial is waiting for the server and no read deadline is armed on the connection: an unresponsive server is never dropped"
		case !dialRunning && fired && c.ep.SetupErr() == nil:
			return fmt.Sprintf("VIOL[c10-scramblesuit-deadline]: the handshake deadline %v is still armed after Dial succeeded: the stale timer kills the established connection", c.n.ReadDeadline(wire.A))
		}
		if !dialRunning {
			c.n.EOF(wire.B) // an established connection has no timer: end it by EOF
		}
	}
	if msg := c.wait(); msg != "" {
		return msg
	}
	if !c.ep.Exited() {
		what := "Read"
		if dialRunning {
			what = "Dial"
		}
		return fmt.Sprintf("VIOL[c10-scramblesuit-no-return]: the input has ended (%s after %d bytes) and the client is parked: %s does not return", vf10EndNames[how], streamLen, what)
	}
	if c.ep.SetupErr() == nil && c.ep.ReadErr() == nil {
		return fmt.Sprintf("VIOL[c10-scramblesuit-no-return]: the input has ended (%s) and the client goroutine finished without an error", vf10EndNames[how])
	}
	return ""
}

// deadlines checks the deadline discipline from the wire log: a non-zero
// deadline armed before the first handshake Read; after a successful Dial the
// last call is the zero time.
func (c *vf10Client) deadlines() string {
	_, all, _ := c.n.Snapshot()
	var dl []wire.DeadlineRec
	for _, d := range all {
		if d.Side == wire.A && d.Kind != "w" {
			dl = append(dl, d)
		}
	}
	reads := c.n.Reads(wire.A)
	if len(dl) == 0 {
		if reads == 0 && c.ep.SetupErr() != nil {
			return "" // failed before touching the network
		}
		return fmt.Sprintf("VIOL[c10-scramblesuit-deadline]: no read deadline was ever set on the dialled connection (%d Read calls)", reads)
	}
	if dl[0].T.IsZero() || dl[0].ReadsBefore != 0 {
		return fmt.Sprintf("VIOL[c10-scramblesuit-deadline]: first deadline call is %v after %d Read calls: the handshake is not under a deadline from its first Read", dl[0].T, dl[0].ReadsBefore)
	}
	if d := dl[0].T.Sub(dl[0].At); d <= 0 || d > 10*time.Minute {
		return fmt.Sprintf("VIOL[c10-scramblesuit-deadline]: handshake deadline armed %v in the future", d)
	}
	for _, d := range dl[1:] {
		if !d.T.IsZero() && d.T.After(dl[0].T.Add(2*time.Millisecond)) {
			return fmt.Sprintf("VIOL[c10-scramblesuit-deadline-slides]: the handshake started under the read deadline %s; after %d reads the deadline was moved to %s (%v later): every piece of input pushes the timeout back", dl[0].T.Format("15:04:05.000000"), d.ReadsBefore, d.T.Format("15:04:05.000000"), d.T.Sub(dl[0].T))
		}
	}
	if c.ep.SetupDone() && c.ep.SetupErr() == nil {
		if wd := c.n.WriteDeadline(wire.A); !wd.IsZero() {
			return fmt.Sprintf("VIOL[c10-scramblesuit-deadline]: Dial succeeded and a write deadline (%v) is still armed: every Write fails once the handshake timeout has passed", wd)
		}
		if last := dl[len(dl)-1]; !last.T.IsZero() {
			return fmt.Sprintf("VIOL[c10-scramblesuit-deadline]: Dial succeeded and the last deadline call is %v, not the zero time: a stale handshake timer stays armed", last.T)
		}
	}
	return ""
}

// vf10Repeat returns n bytes: pattern repeated (detrand filler if empty).
func vf10Repeat(pattern []byte, n int, seed uint64) []byte {
	if n <= 0 {
		return nil
	}
	if len(pattern) == 0 {
		return detrand.Bytes(seed^0x10c10, n)
	}
	out := bytes.Repeat(pattern, n/len(pattern)+1)
	return out[:n]
}

func vf10IsPrefix(got, want []byte) bool {
	return len(got) <= len(want) && bytes.Equal(got, want[:len(got)])
}

// vf10Chunks decodes a chunk plan from bytes (shared by the fuzz decoders):
// b < 0x80: b+1 bytes; otherwise (b-0x7f)*512 bytes.
func vf10Chunks(plan []byte) []int {
	if len(plan) > 256 {
		plan = plan[:256]
	}
	var out []int
	for _, b := range plan {
		if b < 0x80 {
			out = append(out, int(b)+1)
		} else {
			out = append(out, (int(b)-0x7f)*512)
		}
	}
	return out
}
