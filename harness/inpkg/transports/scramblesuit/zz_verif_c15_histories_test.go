//go:build verif

package scramblesuit

// C15 unit "histories": rapid state machine over one state directory —
// connect / issueTicket / closeSession / restart / expireTicket (file or live
// store) / wrongSecret / tamperResponse against a model of the ticket store.
//
// In-package dependencies: ssClientFactory.ticketStore, ssTicketStore.store,
// ssTicket.issuedAt, ssTicketJSON, ticketFile, ticketLifetime.

import (
	"encoding/json"
	"fmt"
	"os"
	"path/filepath"
	"strings"
	"testing"
	"time"

	"pgregory.net/rapid"

	"gitlab.com/yawning/obfs4.git/internal/verifkit/detrand"
	"gitlab.com/yawning/obfs4.git/internal/verifkit/ev"
	"gitlab.com/yawning/obfs4.git/internal/verifkit/refss"
	"gitlab.com/yawning/obfs4.git/internal/verifkit/wire"
	"gitlab.com/yawning/obfs4.git/transports/base"
)

// vf15MTicket is the model's view of one stored ticket.
type vf15MTicket struct {
	t *refss.Ticket
	// age is how old the ticket is according to its issuedAt, in seconds, at the
	// harness time `stamp`: 0 at issue, set by an absolute rewrite of issuedAt,
	// increased by every relative ageing wherever the entry lives.  It is NOT
	// reset by a restart: a ticket does not get younger by being loaded.
	age          int64
	stamp        int64
	restarts     int   // restarts this entry has survived
	ageAtRestart int64 // age when it last survived a restart
}

// vf15AgeGuard: ageing never puts a ticket closer than this below the lifetime
// (the property does not say which side age == lifetime is on, and real time
// passes while a history runs); what real time does beyond that is handled at
// connect time by validity().
const vf15AgeGuard = 8

// expired: certainly past its lifetime, whichever side the boundary is on.
func (m vf15MTicket) expired() bool { return m.age > ticketLifetime }

// validity classifies the entry at connect time: +1 certainly valid, -1
// certainly expired, 0 too close to call because of the real time that has
// passed since the stamp (the case is then discarded).
func (m vf15MTicket) validity() int {
	switch elapsed := time.Now().Unix() - m.stamp; {
	case m.expired():
		return -1
	case m.age+elapsed+3 < ticketLifetime:
		return 1
	}
	return 0
}

type vf15Open struct {
	l    *vf15Link
	addr string
	id   int
}

type vf15World struct {
	k       uint64
	dir     string
	cf      base.ClientFactory
	addrs   []string
	servers map[string]*refss.Server
	secrets map[string][]byte

	live map[string]vf15MTicket // the factory's in-memory store
	file map[string]vf15MTicket // scramblesuit_tickets.json

	open      []*vf15Open
	presented map[[refss.TicketLen]byte]string // every ticket ever seen on the wire -> where
	conns     int
	issues    int
	log       []string
	cls       map[string]bool
	nt        bool
}

func (w *vf15World) hist() string { return strings.Join(w.log, " ") }

func (w *vf15World) failf(rt *rapid.T, format string, a ...any) {
	rt.Fatalf("%s\nhistory: %s", fmt.Sprintf(format, a...), w.hist())
}

func (w *vf15World) must(rt *rapid.T, msg string) {
	if msg != "" {
		rt.Fatalf("%s\nhistory: %s", msg, w.hist())
	}
}

func vf15CopyStore(m map[string]vf15MTicket) map[string]vf15MTicket {
	out := make(map[string]vf15MTicket, len(m))
	for k, v := range m {
		out[k] = v
	}
	return out
}

func (w *vf15World) drawAddr(rt *rapid.T) string {
	return w.addrs[rapid.IntRange(0, len(w.addrs)-1).Draw(rt, "addr")]
}

// whoIssued finds the authority record of 112 presented bytes, at any bridge.
func (w *vf15World) whoIssued(blob []byte) (*refss.Ticket, string) {
	for _, a := range w.addrs {
		if t := w.servers[a].Auth.Lookup(blob); t != nil {
			return t, a
		}
	}
	return nil, ""
}

const (
	vf15ConnNormal = iota
	vf15ConnWrongSecret
	vf15ConnTamper
)

// connect dials addr and checks the handshake kind against the model.
func (w *vf15World) connect(rt *rapid.T, addr string, how int) {
	w.conns++
	id := w.conns
	mt, has := w.live[addr]
	if has && mt.validity() == 0 {
		vf15Evidence().Excluded("histories: connect skipped, real time has moved a ticket too close to its expiry to predict the handshake", 1)
		rt.Skip("real time has moved a ticket too close to its expiry to predict the handshake")
	}
	wantTicket := has && mt.validity() > 0
	if has {
		// the client removes the entry before use, valid or not, and checkpoints
		delete(w.live, addr)
		w.file = vf15CopyStore(w.live)
	}
	secret := w.secrets[addr]
	if how == vf15ConnWrongSecret {
		secret = refss.FlipBit(secret, rapid.IntRange(0, refss.SecretLen*8-1).Draw(rt, "secretBit"))
	}
	srv := w.servers[addr]
	tag := []string{"connect", "wrongSecret", "tamperResponse"}[how]
	w.log = append(w.log, fmt.Sprintf("%s#%d(%s)", tag, id, addr))
	l := vf15Dial(w.cf, srv, addr, secret)
	keep := false
	defer func() {
		if !keep {
			l.close()
		}
	}()
	w.must(rt, l.readHello())

	// what did the client present?
	var shown *refss.Ticket
	if len(l.blob) >= refss.TicketLen {
		var from string
		if shown, from = w.whoIssued(l.blob[:refss.TicketLen]); shown != nil {
			var key [refss.TicketLen]byte
			copy(key[:], l.blob)
			if where, dup := w.presented[key]; dup {
				w.failf(rt, "VIOL[c15-ticket-reuse]: connection #%d to %s presents ticket #%d of %s, which was already presented by %s", id, addr, shown.Serial, from, where)
			}
			w.presented[key] = fmt.Sprintf("connection #%d to %s", id, addr)
			switch {
			case has && mt.expired():
				w.failf(rt, "VIOL[c15-expired-ticket-used]: connection #%d to %s presents ticket #%d although it is %d s old (lifetime %d s; it survived %d restarts, the last one at the age of %d s)", id, addr, shown.Serial, mt.age, ticketLifetime, mt.restarts, mt.ageAtRestart)
			case !has:
				w.failf(rt, "VIOL[c15-ticket-unexpected]: connection #%d to %s presents ticket #%d of %s, the model of the store holds none for this address", id, addr, shown.Serial, from)
			case shown != mt.t:
				w.failf(rt, "VIOL[c15-ticket-mismatch]: connection #%d to %s presents ticket #%d of %s, the store should hold #%d", id, addr, shown.Serial, from, mt.t.Serial)
			}
		}
	}
	if wantTicket && shown == nil {
		w.failf(rt, "VIOL[c15-ticket-not-used]: connection #%d to %s: the store holds the valid ticket #%d (survived %d restarts), client sent a %v handshake of %d bytes", id, addr, mt.t.Serial, mt.restarts, l.hello.Kind, len(l.blob))
	}

	data := vf15Fill(w.k, 0x4000+uint64(id), 1+id%40)
	coalesced := false
	if wantTicket {
		w.must(rt, l.checkHello())
		if l.hello.Kind != refss.KindTicket {
			w.failf(rt, "VIOL[c15-handshake-kind]: connection #%d: expected a ticket handshake, server parsed %v", id, l.hello.Kind)
		}
		l.sess = refss.NewTicketSession(l.hello.Ticket)
		w.must(rt, l.handshakeDone(fmt.Sprintf("ticket handshake #%d to %s", id, addr)))
		w.cls["ticket-handshake"] = true
		if mt.restarts > 0 {
			w.cls["ticket-after-restart"] = true
			w.nt = true
		}
		if how == vf15ConnWrongSecret {
			w.cls["wrong-secret-but-ticket"] = true
		}
		w.log[len(w.log)-1] += "=T" + fmt.Sprint(mt.t.Serial)
	} else {
		if has && mt.expired() {
			w.cls["expired-falls-back"] = true
			w.nt = true
			if mt.restarts > 0 && mt.ageAtRestart > 0 && mt.age-mt.ageAtRestart <= ticketLifetime-vf15AgeGuard {
				// aged, restarted while still valid, aged again by less than a lifetime,
				// total beyond the lifetime: only a client that carries issuedAt across
				// the restart falls back here
				w.cls["aged-restart-aged-expired"] = true
			}
		}
		pad := vf15DrawPad(rt, "pad")
		alt := rapid.Bool().Draw(rt, "sendAlt")
		priv := vf15Fill(w.k, 0x1000+uint64(id), refss.KeySize)
		switch how {
		case vf15ConnWrongSecret:
			if l.helloErr == nil {
				w.failf(rt, "harness: hello keyed with a different secret verified")
			}
			l.tampered = true
			if rapid.Bool().Draw(rt, "answerAnyway") {
				l.writeResponse(l.respond(priv, alt, vf15Fill(w.k, 0x2000+uint64(id), pad)))
				w.must(rt, l.release(l.queued))
			}
			w.must(rt, vf15EndFailedDial(rt, l, &w.log))
			if l.ep.SetupDone() && l.ep.SetupErr() == nil {
				w.failf(rt, "VIOL[c15-wrong-secret-accepted]: connection #%d: Dial completed although the secrets differ", id)
			}
			w.cls["wrong-secret-rejected"] = true
			w.log[len(w.log)-1] += "=rejected"
			return
		case vf15ConnTamper:
			w.must(rt, l.checkHello())
			resp := l.respond(priv, alt, vf15Fill(w.k, 0x2000+uint64(id), pad))
			bit := rapid.IntRange(0, len(resp)*8-1).Draw(rt, "tamperBit")
			if rapid.Bool().Draw(rt, "tamperTail") {
				bit = len(resp)*8 - 1 - rapid.IntRange(0, 2*refss.MacLen*8-1).Draw(rt, "tamperTailBit")
			}
			l.tampered = true
			l.writeResponse(refss.FlipBit(resp, bit))
			w.must(rt, l.release(l.queued))
			w.must(rt, vf15EndFailedDial(rt, l, &w.log))
			if l.ep.SetupDone() && l.ep.SetupErr() == nil {
				w.failf(rt, "VIOL[c15-tampered-accepted]: connection #%d: Dial completed although bit %d of the %d byte response was inverted", id, bit, len(resp))
			}
			w.cls["tamper-rejected"] = true
			w.log[len(w.log)-1] += "=rejected"
			return
		}
		w.must(rt, l.checkHello())
		if l.hello.Kind != refss.KindUniformDH {
			w.failf(rt, "VIOL[c15-handshake-kind]: connection #%d: expected UniformDH, server parsed %v", id, l.hello.Kind)
		}
		l.writeResponse(l.respond(priv, alt, vf15Fill(w.k, 0x2000+uint64(id), pad)))
		// the server may send packets right behind the response, in the same flight
		var coTicket *refss.Ticket
		switch rapid.IntRange(0, 3).Draw(rt, "coalesce") {
		case 1:
			l.packet(refss.FlagPayload, data, id%5, nil)
			coalesced = true
		case 2:
			w.issues++
			coTicket = srv.Auth.Issue(vf15Fill(w.k, 0x5000+uint64(w.issues), 16))
			l.packet(refss.FlagNewTicket, coTicket.Payload(), id%3, nil)
		}
		cuts := vf15DrawCuts(rt, l.respLen, l.queued)
		for _, cut := range append(cuts, l.queued) {
			w.must(rt, l.release(cut-int(l.n.Released(wire.B))))
		}
		w.must(rt, l.handshakeDone(fmt.Sprintf("UniformDH handshake #%d to %s pad=%d cuts=%v", id, addr, pad, cuts)))
		w.must(rt, l.checkDelivery(fmt.Sprintf("UniformDH handshake #%d to %s pad=%d flight=%d cuts=%v", id, addr, pad, l.queued, cuts)))
		w.cls["udh-handshake"] = true
		w.log[len(w.log)-1] += fmt.Sprintf("=DH(pad %d flight %d cuts %v)", pad, l.queued, cuts)
		if coalesced {
			w.cls["data-coalesced-with-response"] = true
		}
		if coTicket != nil {
			w.live[addr] = vf15MTicket{t: coTicket, stamp: time.Now().Unix()}
			w.file = vf15CopyStore(w.live)
			w.cls["issue"] = true
			w.cls["ticket-coalesced-with-response"] = true
			w.log[len(w.log)-1] += fmt.Sprintf("+T%d", coTicket.Serial)
		}
	}

	// a short exchange proves that both sides derived the same keys
	ctx := fmt.Sprintf("connection #%d to %s (%v)", id, addr, l.hello.Kind)
	w.must(rt, l.clientWrite(vf15Fill(w.k, 0x3000+uint64(id), 1+id%50), nil))
	w.must(rt, l.upstreamComplete(ctx))
	if !coalesced {
		l.packet(refss.FlagPayload, data, id%5, nil)
	}
	w.must(rt, l.finalCompare(ctx, id%2 == 0))
	keep = true
	w.open = append(w.open, &vf15Open{l: l, addr: addr, id: id})
	if len(w.open) > 4 {
		w.open[0].l.close()
		w.open = w.open[1:]
	}
}

func (w *vf15World) pickOpen(rt *rapid.T) *vf15Open {
	if len(w.open) == 0 {
		rt.Skip("no open session")
	}
	return w.open[rapid.IntRange(0, len(w.open)-1).Draw(rt, "session")]
}

// issueTicket lets the server of an open session send NEW_TICKET.
func (w *vf15World) issueTicket(rt *rapid.T) { w.issueOn(rt, w.pickOpen(rt)) }

func (w *vf15World) issueOn(rt *rapid.T, o *vf15Open) {
	w.issues++
	tk := w.servers[o.addr].Auth.Issue(vf15Fill(w.k, 0x5000+uint64(w.issues), 16))
	pad := vf15DrawPktPad(rt, refss.MasterKeyLen+refss.TicketLen)
	o.l.packet(refss.FlagNewTicket, tk.Payload(), pad, nil)
	w.log = append(w.log, fmt.Sprintf("issue(T%d on #%d %s)", tk.Serial, o.id, o.addr))
	pend := o.l.n.Pending(wire.B)
	if rapid.Bool().Draw(rt, "splitTicketPacket") {
		w.must(rt, o.l.release(rapid.IntRange(1, pend-1).Draw(rt, "ticketCut")))
	}
	w.must(rt, o.l.release(pend))
	w.must(rt, o.l.checkDelivery("after NEW_TICKET"))
	if _, replaced := w.live[o.addr]; replaced {
		w.cls["ticket-replaced"] = true
	}
	w.live[o.addr] = vf15MTicket{t: tk, stamp: time.Now().Unix()}
	w.file = vf15CopyStore(w.live)
	w.cls["issue"] = true
}

// corruptSession: one bit of a packet on an open session is inverted, more
// than one maximum packet of valid traffic follows; the application keeps
// calling Read three times after the first error.  Read must fail and
// everything delivered must stay a prefix of what the server sent.
func (w *vf15World) corruptSession(rt *rapid.T) {
	o := w.pickOpen(rt)
	l := o.l
	l.ep.KeepReading(3)
	region := []refss.Region{refss.RegionMAC, refss.RegionHeader, refss.RegionBody}[rapid.IntRange(0, 2).Draw(rt, "region")]
	var bit int
	l.packet(refss.FlagPayload, vf15Fill(w.k, 0x6200+uint64(o.id), 20), 0, nil) // intact, directly in front
	l.packet(refss.FlagPayload, vf15Fill(w.k, 0x6000+uint64(o.id), 30), 2, func(pkt []byte) []byte {
		bit = rapid.IntRange(0, refss.RegionBits(pkt, region)-1).Draw(rt, "bit")
		return refss.CorruptPacket(pkt, region, bit)
	})
	l.setCorrupt(region, bit, 32)
	w.log = append(w.log, fmt.Sprintf("corrupt(#%d,%v bit %d)", o.id, region, bit))
	if l.corruptDecidable && rapid.Bool().Draw(rt, "nothingAfter") {
		// intact payload packet and the modified one in one segment, then silence or EOF
		w.must(rt, l.release(l.n.Pending(wire.B)))
		w.must(rt, l.checkDelivery("intact payload packet and modified packet in one segment, then silence"))
		if rapid.Bool().Draw(rt, "thenEOF") {
			l.n.EOF(wire.B)
			w.must(rt, l.quiesce())
			w.must(rt, l.checkDelivery("intact payload packet and modified packet in one segment, then EOF"))
		}
		w.cls["session-corrupted-nothing-after"] = true
	} else {
		for i := 0; i < 2; i++ {
			l.packet(refss.FlagPayload, vf15Fill(w.k, 0x6100+uint64(o.id*2+i), 1000), 0, nil)
		}
		pend := l.n.Pending(wire.B)
		w.must(rt, l.release(rapid.IntRange(1, pend).Draw(rt, "corruptCut")))
		w.must(rt, l.checkDelivery("after a modified packet"))
		w.must(rt, l.release(pend))
		w.must(rt, l.checkDelivery("after a modified packet"))
	}
	if l.ep.ReadErr() == nil {
		w.failf(rt, "VIOL[c15-corruption-undetected]: session #%d: a packet with one inverted bit (%v bit %d) was delivered (with 2042 further bytes unless nothing follows), client Read reports no error (delivered %d of %d bytes)", o.id, region, bit, l.ep.GotLen(), len(l.sent))
	}
	w.cls["session-corrupted"] = true
	l.close()
	for i, x := range w.open {
		if x == o {
			w.open = append(w.open[:i], w.open[i+1:]...)
			break
		}
	}
}

func (w *vf15World) closeSession(rt *rapid.T) {
	o := w.pickOpen(rt)
	o.l.close()
	for i, x := range w.open {
		if x == o {
			w.open = append(w.open[:i], w.open[i+1:]...)
			break
		}
	}
	w.log = append(w.log, fmt.Sprintf("close(#%d)", o.id))
}

func (w *vf15World) closeAll() {
	for _, o := range w.open {
		o.l.close()
	}
	w.open = nil
}

// restart models a new process: a new ClientFactory on the same directory.
func (w *vf15World) restart(rt *rapid.T) {
	w.closeAll()
	cf, err := (&Transport{}).ClientFactory(w.dir)
	if err != nil {
		w.failf(rt, "VIOL[c15-restart-failed]: ClientFactory on the state directory written by the client itself failed: %v", err)
	}
	w.cf = cf
	nl := map[string]vf15MTicket{}
	for a, mt := range w.file {
		if !mt.expired() {
			mt.restarts++
			mt.ageAtRestart = mt.age
			nl[a] = mt
		}
	}
	w.live = nl
	w.log = append(w.log, "restart")
	w.cls["restart"] = true
}

// expireLive moves issuedAt of a ticket in the live store into the past.
func (w *vf15World) expireLive(rt *rapid.T) { w.expireLiveAt(rt, w.drawHolder(rt, w.live)) }

// drawHolder draws an address that has an entry in m; the action is skipped
// (before anything was drawn) when there is none.
func (w *vf15World) drawHolder(rt *rapid.T, m map[string]vf15MTicket) string {
	var cands []string
	for _, a := range w.addrs {
		if _, ok := m[a]; ok {
			cands = append(cands, a)
		}
	}
	if len(cands) == 0 {
		rt.Skip("no ticket to age")
	}
	return cands[rapid.IntRange(0, len(cands)-1).Draw(rt, "holder")]
}

func (w *vf15World) expireLiveAt(rt *rapid.T, addr string) {
	mt, has := w.live[addr]
	if !has {
		return
	}
	age := vf15DrawAge(rt)
	now := time.Now().Unix()
	st := w.cf.(*ssClientFactory).ticketStore
	st.Lock()
	if t := st.store[addr]; t != nil {
		t.issuedAt = now - age
	}
	st.Unlock()
	mt.age, mt.stamp = age, now // a later issuedAt makes an expired entry valid again
	w.live[addr] = mt
	if mt.expired() {
		w.cls["expire-live"] = true
	}
	w.log = append(w.log, fmt.Sprintf("setAgeLive(%s,%ds)", addr, age))
}

// expireFile rewrites issuedAt of a ticket in the JSON file.
func (w *vf15World) expireFile(rt *rapid.T) { w.expireFileAt(rt, w.drawHolder(rt, w.file)) }

// scenario composes the actions above into the life of one ticket, so that
// stored tickets are actually looked at before the next NEW_TICKET replaces
// them: make sure the address holds a ticket (connect + issueTicket if not),
// then use it at once / after a restart / after ageing it in the live store /
// after ageing it in the file and restarting / ..., then connect.
func (w *vf15World) scenario(rt *rapid.T) {
	addr := w.drawAddr(rt)
	if _, has := w.live[addr]; !has {
		w.connect(rt, addr, vf15ConnNormal)
		w.issueOn(rt, w.open[len(w.open)-1])
	}
	switch rapid.IntRange(0, 5).Draw(rt, "variant") {
	case 0:
	case 1:
		w.restart(rt)
	case 2:
		w.expireLiveAt(rt, addr)
	case 3:
		w.expireFileAt(rt, addr)
		w.restart(rt)
	case 4:
		w.restart(rt)
		w.expireLiveAt(rt, addr)
	case 5:
		w.restart(rt)
		w.restart(rt)
	}
	w.connect(rt, addr, []int{vf15ConnNormal, vf15ConnNormal, vf15ConnNormal, vf15ConnWrongSecret, vf15ConnTamper}[rapid.IntRange(0, 4).Draw(rt, "how")])
}

func (w *vf15World) expireFileAt(rt *rapid.T, addr string) {
	mt, has := w.file[addr]
	if !has {
		return
	}
	age := vf15DrawAge(rt)
	now := time.Now().Unix()
	path := filepath.Join(w.dir, ticketFile)
	enc := map[string]*ssTicketJSON{}
	if raw, err := os.ReadFile(path); err != nil || json.Unmarshal(raw, &enc) != nil || enc[addr] == nil {
		// the file does not hold what the model says: leave both alone, the next
		// restart + connect reports the difference
		w.log = append(w.log, fmt.Sprintf("ageFile(%s: no such entry in the file)", addr))
		return
	}
	enc[addr].IssuedAt = now - age
	out, _ := json.Marshal(enc)
	if err := os.WriteFile(path, out, 0o600); err != nil {
		rt.Fatalf("harness: cannot rewrite %s: %v", path, err)
	}
	mt.age, mt.stamp = age, now
	w.file[addr] = mt
	if mt.expired() {
		w.cls["expire-file"] = true
	}
	w.log = append(w.log, fmt.Sprintf("setAgeFile(%s,%ds)", addr, age))
}

// vf15DrawAge draws the age an absolute rewrite of issuedAt gives a ticket:
// more than one lifetime (expired; age == lifetime exactly is not generated,
// the property does not say which side the boundary is on) or one that leaves
// at least an hour of validity.
func vf15DrawAge(rt *rapid.T) int64 {
	if rapid.IntRange(0, 3).Draw(rt, "stillValid") == 0 {
		return ticketLifetime - rapid.SampledFrom([]int64{3600, 86400, ticketLifetime}).Draw(rt, "margin")
	}
	return ticketLifetime + rapid.SampledFrom([]int64{1, 2, 3600, 864000}).Draw(rt, "over")
}

// safeDelta enlarges delta until no stored ticket ends up within vf15AgeGuard
// seconds below (or exactly at) the lifetime.
func (w *vf15World) safeDelta(delta int64) int64 {
	inBand := func(d int64) bool {
		for _, m := range []map[string]vf15MTicket{w.live, w.file} {
			for _, mt := range m {
				if a := mt.age + d; a > ticketLifetime-vf15AgeGuard && a <= ticketLifetime {
					return true
				}
			}
		}
		return false
	}
	for i := 0; i < 16 && inBand(delta); i++ {
		delta += vf15AgeGuard + 1
	}
	if inBand(delta) {
		delta = 3 * ticketLifetime
	}
	return delta
}

// ageAll lets delta seconds pass for every stored ticket wherever it lives:
// issuedAt of every entry of the live store and of the JSON file is moved back
// by delta (as if the clock had advanced), and the model ages every entry by
// the same amount.
func (w *vf15World) ageAll(rt *rapid.T, delta int64) {
	delta = w.safeDelta(delta)
	st := w.cf.(*ssClientFactory).ticketStore
	st.Lock()
	for _, t := range st.store {
		t.issuedAt -= delta
	}
	st.Unlock()
	path := filepath.Join(w.dir, ticketFile)
	enc := map[string]*ssTicketJSON{}
	if raw, err := os.ReadFile(path); err == nil && json.Unmarshal(raw, &enc) == nil {
		for _, e := range enc {
			if e != nil {
				e.IssuedAt -= delta
			}
		}
		out, _ := json.Marshal(enc)
		if err := os.WriteFile(path, out, 0o600); err != nil {
			rt.Fatalf("harness: cannot rewrite %s: %v", path, err)
		}
	}
	for _, m := range []map[string]vf15MTicket{w.live, w.file} {
		for a, mt := range m {
			mt.age += delta
			m[a] = mt
		}
	}
	w.log = append(w.log, fmt.Sprintf("age(+%ds)", delta))
	w.cls["age"] = true
}

var vf15Epsilons = []int64{10, 20, 150, 600, 3600}

// age is the action: time passes.
func (w *vf15World) age(rt *rapid.T) {
	if len(w.live)+len(w.file) == 0 {
		rt.Skip("no ticket to age")
	}
	var delta int64
	switch rapid.IntRange(0, 4).Draw(rt, "deltaKind") {
	case 0:
		delta = rapid.SampledFrom([]int64{1, 5, 30}).Draw(rt, "seconds")
	case 1:
		delta = ticketLifetime - rapid.SampledFrom(vf15Epsilons).Draw(rt, "lifetimeMinus")
	case 2:
		delta = rapid.SampledFrom(vf15Epsilons).Draw(rt, "epsilon")
	case 3:
		delta = ticketLifetime + rapid.SampledFrom(vf15Epsilons).Draw(rt, "lifetimePlus")
	default:
		delta = 86400 * rapid.Int64Range(1, 8).Draw(rt, "days")
	}
	w.ageAll(rt, delta)
}

// agedAcrossRestart is the life of a ticket that grows old in two steps with a
// restart in between: the address holds a ticket; time passes but leaves it
// valid (to lifetime - epsilon, or some days); the client restarts; time passes
// again, by less than a lifetime, until the ticket is epsilon past its
// lifetime; connect must fall back to UniformDH.
func (w *vf15World) agedAcrossRestart(rt *rapid.T) {
	addr := w.drawAddr(rt)
	if _, has := w.live[addr]; !has {
		w.connect(rt, addr, vf15ConnNormal)
		w.issueOn(rt, w.open[len(w.open)-1])
	}
	target := ticketLifetime - rapid.SampledFrom(vf15Epsilons).Draw(rt, "before")
	if rapid.Bool().Draw(rt, "daysBefore") {
		target = 86400 * rapid.Int64Range(1, 6).Draw(rt, "days")
	}
	if d := target - w.live[addr].age; d > 0 {
		w.ageAll(rt, d)
	}
	w.restart(rt)
	if mt, has := w.live[addr]; has && !mt.expired() {
		w.ageAll(rt, ticketLifetime-mt.age+rapid.SampledFrom([]int64{1, 10, 20, 150, 3600}).Draw(rt, "past"))
	}
	if rapid.IntRange(0, 3).Draw(rt, "secondRestart") == 0 {
		w.restart(rt)
	}
	w.connect(rt, addr, vf15ConnNormal)
}

func TestVerifC15Histories(t *testing.T) {
	if err := vf15Anchors(); err != nil {
		t.Fatalf("reference server anchors: %v", err)
	}
	c := vf15Evidence()
	c.Rule("histories: rapid state machine over one state directory and three bridge addresses (two share the host; own secret and ticket authority each): connect (UniformDH response with drawn padding, optionally with a data packet or a NEW_TICKET packet in the same flight, cut in 1..3 segments; or ticket handshake; then a short exchange both ways; whatever has arrived completely must be delivered / stored at quiescence without further traffic), issueTicket (NEW_TICKET on any of up to 4 open sessions, packet optionally split), closeSession, corruptSession (one inverted bit in a packet of an open session + 2042 valid bytes, the reader keeps calling Read three times after the first error: Read must fail, everything delivered stays a prefix), restart (sessions closed, new ClientFactory on the same directory), set the age of a ticket in the live store or in the JSON file absolutely (issuedAt = now - (lifetime + 1 s .. 10 d), or to leave >= 1 h), age(delta): time passes - issuedAt of EVERY entry of the live store and of the file moved back by delta in {1/5/30 s, lifetime - eps, eps, lifetime + eps, 1..8 days}, eps in {10, 20, 150, 600, 3600} s (delta enlarged so that no ticket ends within 8 s below the lifetime), agedAcrossRestart (ticket aged to lifetime - eps or some days, restart, aged to lifetime + eps', connect), wrongSecret, tamperResponse; model: <= 1 ticket per address with its age (sum of all agings since issue, NOT reset by a restart; valid iff age < lifetime, cases in which real time makes that too close to call are discarded), removed and checkpointed before use; oracle per connect: ticket handshake with exactly the stored ticket iff the model holds an unexpired one, otherwise UniformDH; no 112-byte ticket ever appears twice on the wire; non-trivial = a ticket that survived a restart is used, or an expired ticket falls back to UniformDH; fingerprint = seed and action log")
	c.Floor("ticket-after-restart/histories", 0.30)
	c.Floor("expired-falls-back/histories", 0.20)
	c.Floor("ticket-handshake/histories", 0.50)
	c.Floor("expire-file/histories", 0.15)
	c.Floor("expire-live/histories", 0.15)
	c.Floor("age/histories", 0.50)
	c.Floor("ticket-coalesced-with-response/histories", 0.30)
	c.Floor("data-coalesced-with-response/histories", 0.30)
	c.Floor("aged-restart-aged-expired/histories", 0.20)
	rapid.Check(t, func(rt *rapid.T) {
		k := rapid.Uint64().Draw(rt, "seed")
		detrand.Seed(k)
		defer detrand.Real()
		dir, cleanup := vf15TempDir()
		defer cleanup()
		cf, err := (&Transport{}).ClientFactory(dir)
		if err != nil {
			rt.Fatalf("ClientFactory: %v", err)
		}
		w := &vf15World{k: k, dir: dir, cf: cf, addrs: []string{"192.0.2.15:443", "192.0.2.15:9001", "[2001:db8::15]:443"},
			servers: map[string]*refss.Server{}, secrets: map[string][]byte{},
			live: map[string]vf15MTicket{}, file: map[string]vf15MTicket{},
			presented: map[[refss.TicketLen]byte]string{}, cls: map[string]bool{}}
		for i, a := range w.addrs {
			w.secrets[a] = vf15Secret(k, uint64(10+i))
			w.servers[a] = vf15Server(w.secrets[a])
		}
		defer w.closeAll()
		connectTo := func(how int) func(*rapid.T) {
			return func(rt *rapid.T) { w.connect(rt, w.drawAddr(rt), how) }
		}
		rt.Repeat(map[string]func(*rapid.T){
			"connect":           connectTo(vf15ConnNormal),
			"connect2":          connectTo(vf15ConnNormal),
			"connect3":          connectTo(vf15ConnNormal),
			"issueTicket":       w.issueTicket,
			"issueTicket2":      w.issueTicket,
			"issueTicket3":      w.issueTicket,
			"closeSession":      w.closeSession,
			"corruptSession":    w.corruptSession,
			"restart":           w.restart,
			"restart2":          w.restart,
			"expireLive":        w.expireLive,
			"expireLive2":       w.expireLive,
			"expireFile":        w.expireFile,
			"expireFile2":       w.expireFile,
			"scenario":          w.scenario,
			"scenario2":         w.scenario,
			"age":               w.age,
			"age2":              w.age,
			"agedAcrossRestart": w.agedAcrossRestart,
			"wrongSecret":       connectTo(vf15ConnWrongSecret),
			"tamperResponse":    connectTo(vf15ConnTamper),
		})
		cls := []string{"histories"}
		for name, on := range w.cls {
			if on {
				cls = append(cls, name)
			}
		}
		c.Class("history-connections", int64(w.conns))
		c.Class("history-tickets-issued", int64(w.issues))
		c.Class("history-tickets-presented", int64(len(w.presented)))
		c.Case(ev.Hash(k, w.hist()), w.nt, cls, func() any {
			h := w.log
			if len(h) > 40 {
				h = append(append([]string(nil), h[:40]...), fmt.Sprintf("...(%d actions)", len(w.log)))
			}
			return map[string]any{"seed": k, "actions": h, "connections": w.conns, "tickets_issued": w.issues, "tickets_presented": len(w.presented)}
		})
	})
}
