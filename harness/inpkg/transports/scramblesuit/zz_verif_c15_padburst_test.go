//go:build verif

package scramblesuit

// C15 unit "padburst": complete enumeration of the burst padding arithmetic.
// The real ssConn.padBurst (in-package, on a connection with live transmit
// crypto) is called for every burst tail x every sampled length; the reference
// server opens what it appended.
//
// In-package dependencies: ssConn (receiveBuffer, receiveDecodedBuffer, lenDist,
// initCrypto, makePayloadPacket, padBurst), maxSegmentLength, maxPayloadLength,
// pktOverhead, minLenDistLength, maxLenDistLength.

import (
	"bytes"
	"encoding/json"
	"fmt"
	"os"
	"runtime/debug"
	"sort"
	"testing"

	"gitlab.com/yawning/obfs4.git/internal/verifkit/ev"
	"gitlab.com/yawning/obfs4.git/internal/verifkit/refss"
)

// Values of the ScrambleSuit specification (the code's constants are compared
// with them at the start of the unit; the enumeration uses the code's).
const (
	vf15SpecMTU       = 1448 // segment length the padding is computed against
	vf15SpecHeader    = 21   // 16-byte MAC + 5-byte header
	vf15SpecMinSample = 21   // length distribution yields HDR_LENGTH .. MTU
	vf15SpecMaxSample = 1448
)

type vf15PadCase struct {
	Tail   int `json:"tail"`   // burst.Len() % 1448 before padding
	Extra  int `json:"extra"`  // whole segments in front of the tail
	Sample int `json:"sample"` // sampled length
}

// vf15PadRig is a client connection with live transmit crypto and the
// reference server's receive side keyed alike.
type vf15PadRig struct {
	conn *ssConn
	sess *refss.Session
	data []byte
}

func vf15NewPadRig(seed uint64) (*vf15PadRig, error) {
	var tk refss.Ticket
	copy(tk.Master[:], vf15Fill(seed, 0x9ad, refss.MasterKeyLen))
	c := &ssConn{receiveBuffer: bytes.NewBuffer(nil), receiveDecodedBuffer: bytes.NewBuffer(nil)}
	if err := c.initCrypto(tk.Master[:]); err != nil {
		return nil, err
	}
	return &vf15PadRig{conn: c, sess: refss.NewTicketSession(&tk), data: vf15Fill(seed, 0x9ae, maxPayloadLength)}, nil
}

// prefix fills burst with real payload packets so that it holds
// extra*1448 + tail bytes; returns the number of packets used.
func (r *vf15PadRig) prefix(burst *bytes.Buffer, tail, extra int) (int, error) {
	want := extra*maxSegmentLength + tail
	n := 0
	for burst.Len() < want {
		left := want - burst.Len()
		size := left
		switch {
		case left > maxSegmentLength+pktOverhead:
			size = maxSegmentLength // a full packet
		case left > maxSegmentLength:
			size = left - 700 // leave room for a last packet of at least the overhead
		}
		if size < pktOverhead {
			return n, fmt.Errorf("cannot build a burst of %d bytes from packets", want)
		}
		if err := r.conn.makePayloadPacket(burst, r.data[:size-pktOverhead], 0); err != nil {
			return n, err
		}
		n++
	}
	return n, nil
}

type vf15PadStats struct {
	evals, nt                   int64
	onePacket, twoPackets, none int64
	exact, headerShort          int64
	maxAppended                 int
}

// vf15RunPad runs one (tail, extra, sample) case; "" or a violation.
func (r *vf15PadRig) run(cs vf15PadCase, st *vf15PadStats) (msg string) {
	var burst bytes.Buffer
	npre, err := r.prefix(&burst, cs.Tail, cs.Extra)
	if err != nil {
		return "harness: " + err.Error()
	}
	before := burst.Len()
	if before%maxSegmentLength != cs.Tail {
		return fmt.Sprintf("harness: burst of %d bytes does not end %d bytes into a segment", before, cs.Tail)
	}
	ctx := fmt.Sprintf("burst of %d bytes (%d packets; ends %d bytes into a segment), sampled length %d", before, npre, cs.Tail, cs.Sample)
	perr := func() (err error) {
		defer func() {
			if p := recover(); p != nil {
				msg = fmt.Sprintf("VIOL[c15-padburst-panic]: %s: padBurst panicked: %v\n%s", ctx, p, debug.Stack())
			}
		}()
		return r.conn.padBurst(&burst, cs.Sample)
	}()
	if msg != "" {
		return msg
	}
	if perr != nil {
		return fmt.Sprintf("VIOL[c15-padburst-error]: %s: padBurst returned %v", ctx, perr)
	}
	appended := burst.Len() - before
	if appended > st.maxAppended {
		st.maxAppended = appended
	}
	// the conforming server opens everything
	r.sess.RxPkts, r.sess.Rx = r.sess.RxPkts[:0], r.sess.Rx[:0]
	if err := r.sess.Feed(burst.Bytes()); err != nil {
		return fmt.Sprintf("VIOL[c15-padburst-packet]: %s: the reference server cannot open the padded burst (%d bytes appended): %v", ctx, appended, err)
	}
	if r.sess.Buffered() != 0 {
		return fmt.Sprintf("VIOL[c15-padburst-packet]: %s: the padded burst ends with %d bytes that do not form a packet", ctx, r.sess.Buffered())
	}
	pk := r.sess.RxPkts
	if len(pk) < npre {
		return fmt.Sprintf("VIOL[c15-padburst-packet]: %s: the reference server found %d packets, the burst had %d before padding", ctx, len(pk), npre)
	}
	sum := 0
	for i, p := range pk[npre:] {
		if p.Flags != refss.FlagPayload || p.Payload != 0 || p.Total > refss.MaxPayload {
			return fmt.Sprintf("VIOL[c15-padburst-packet]: %s: padding packet %d has flags %#x, payload length %d, total length %d", ctx, i, p.Flags, p.Payload, p.Total)
		}
		sum += refss.PktOverhead + p.Total
	}
	if sum != appended {
		return fmt.Sprintf("VIOL[c15-padburst-packet]: %s: %d bytes appended, padding packets account for %d", ctx, appended, sum)
	}
	// "the burst is padded so that its last segment has the sampled length"
	end := burst.Len() % vf15SpecMTU
	want := cs.Sample % vf15SpecMTU
	gap := ((cs.Sample-cs.Tail)%vf15SpecMTU + vf15SpecMTU) % vf15SpecMTU // bytes missing to the sampled length
	switch {
	case end == want:
		st.exact++
	case gap < vf15SpecHeader && end == ((cs.Sample-vf15SpecHeader)%vf15SpecMTU+vf15SpecMTU)%vf15SpecMTU:
		// Deployed behaviour where the gap is smaller than one packet overhead and
		// two packets are needed: obfsproxy's packetmorpher accounts for one of the
		// two headers only, the burst ends one header (21 bytes) short of the
		// sampled length.  The tree reproduces this on purpose (see the comment in
		// padBurst); accepted and counted, not a C15 claim.
		st.headerShort++
	default:
		return fmt.Sprintf("VIOL[c15-padburst-length]: %s: the padded burst has %d bytes and ends %d bytes into a segment, the sampled length is %d (%d bytes appended in %d packets; %d were missing)", ctx, burst.Len(), end, cs.Sample, appended, len(pk)-npre, gap)
	}
	if appended >= 2*vf15SpecMTU+vf15SpecHeader {
		return fmt.Sprintf("VIOL[c15-padburst-length]: %s: %d bytes of padding appended (bound 2 x %d + %d)", ctx, appended, vf15SpecMTU, vf15SpecHeader)
	}
	switch len(pk) - npre {
	case 0:
		st.none++
	case 1:
		st.onePacket++
	default:
		st.twoPackets++
	}
	st.evals++
	if gap < vf15SpecHeader || cs.Tail >= vf15SpecMTU-2*vf15SpecHeader {
		st.nt++
	}
	return ""
}

// vf15PadTails returns the burst tails of the quick tier: the boundaries of
// the arithmetic and a spread.
func vf15PadTails() []int {
	set := map[int]bool{}
	for _, t := range []int{0, 1, 2, 19, 20, 21, 22, 23, 41, 42, 43, 678, 679, 680, 699, 700, 701, 720, 721, 722, 723, 724, 741, 742, 743, 1385, 1386, 1387} {
		set[t] = true
	}
	for t := 1400; t < maxSegmentLength; t++ {
		set[t] = true
	}
	for t := 97; t < maxSegmentLength; t += 97 {
		set[t] = true
	}
	var out []int
	for t := range set {
		out = append(out, t)
	}
	sort.Ints(out)
	return out
}

func TestVerifC15PadBurst(t *testing.T) {
	if err := vf15Anchors(); err != nil {
		t.Fatalf("reference server anchors: %v", err)
	}
	if maxSegmentLength != vf15SpecMTU || pktOverhead != vf15SpecHeader || minLenDistLength != vf15SpecMinSample || maxLenDistLength != vf15SpecMaxSample || maxPayloadLength != refss.MaxPayload {
		t.Fatalf("VIOL[c15-padburst-constants]: the code's constants (segment %d, overhead %d, sampled length %d..%d, maximum payload %d) are not the specification's (%d, %d, %d..%d, %d)",
			maxSegmentLength, pktOverhead, minLenDistLength, maxLenDistLength, maxPayloadLength, vf15SpecMTU, vf15SpecHeader, vf15SpecMinSample, vf15SpecMaxSample, refss.MaxPayload)
	}
	rig, err := vf15NewPadRig(0x15)
	if err != nil {
		t.Fatalf("harness: %v", err)
	}
	var st vf15PadStats
	if rc := os.Getenv("VERIF_REPLAY_CASE"); rc != "" {
		var cs vf15PadCase
		if err := json.Unmarshal([]byte(rc), &cs); err != nil {
			t.Fatalf("bad replay case: %v", err)
		}
		if msg := rig.run(cs, &st); msg != "" {
			fmt.Printf("VERIF-REPLAY-CASE: %s\n", rc)
			t.Fatalf("%s", msg)
		}
		return
	}
	c := vf15Evidence()
	c.Rule("padburst: complete enumeration of the real ssConn.padBurst (in-package, live transmit crypto): burst tail = burst length mod 1448 in 0..1447 (quick: 0,1,2,19..23,41..43,678..680,699..701,720..724,741..743,1385..1387, every tail 1400..1447 and every 97th; thorough: every tail) x every length the distribution can yield, 21..1448 (specification: HDR_LENGTH = 21 .. MTU = 1448; the code's constants are checked against these), burst prefix built from real payload packets, for tails < 21 and for boundary tails also with one and two whole segments in front; oracle: no panic / error, the reference server opens every appended packet (MAC valid, payload flag, payload length 0, total <= 1427, nothing left over), the burst ends `sampled length` bytes into a segment (where fewer than 21 bytes were missing — two packets are needed — ending one 21-byte header short is accepted as the deployed obfsproxy behaviour and counted), less than 2 x 1448 + 21 bytes appended; non-trivial = fewer than 21 bytes missing to the sampled length, or tail >= 1406; distinct by construction")
	shard, nshards := ev.IntEnv("VERIF_SHARD", 0), ev.IntEnv("VERIF_NSHARDS", 1)
	var tails []int
	if ev.Thorough() {
		for tl := 0; tl < maxSegmentLength; tl++ {
			tails = append(tails, tl)
		}
	} else {
		tails = vf15PadTails()
	}
	boundary := map[int]bool{}
	for _, tl := range []int{0, 1, 20, 21, 22, 700, 721, 1406, 1407, 1426, 1427, 1428, 1446, 1447} {
		boundary[tl] = true
	}
	type te struct{ tail, extra int }
	var rows []te
	for _, tl := range tails {
		switch {
		case tl == 0:
			rows = append(rows, te{0, 0}, te{0, 1}, te{0, 2})
		case tl < pktOverhead:
			rows = append(rows, te{tl, 1}, te{tl, 2}) // a tail shorter than a packet needs a segment in front
		case boundary[tl]:
			rows = append(rows, te{tl, 0}, te{tl, 1}, te{tl, 2})
		default:
			rows = append(rows, te{tl, 0})
		}
	}
	total := int64(len(rows)) * int64(maxLenDistLength-minLenDistLength+1)
	fails := map[string]int{}
	var first string
	var firstCase vf15PadCase
	var examples []string
	for i, row := range rows {
		if i%nshards != shard {
			continue
		}
		for s := minLenDistLength; s <= maxLenDistLength; s++ {
			cs := vf15PadCase{Tail: row.tail, Extra: row.extra, Sample: s}
			msg := rig.run(cs, &st)
			if msg == "" {
				continue
			}
			// the cipher state of the rig is undefined after a failure: start afresh
			if rig, err = vf15NewPadRig(0x15 + uint64(len(examples)) + 1); err != nil {
				t.Fatalf("harness: %v", err)
			}
			sig := msg
			for j := 0; j < len(msg); j++ {
				if msg[j] == ']' {
					sig = msg[:j+1]
					break
				}
			}
			fails[sig]++
			if first == "" {
				first, firstCase = msg, cs
			}
			if len(examples) < 10 {
				line := msg
				if j := bytes.IndexByte([]byte(line), '\n'); j > 0 {
					line = line[:j]
				}
				if len(line) > 260 {
					line = line[:260]
				}
				examples = append(examples, fmt.Sprintf("%+v: %s", cs, line))
			}
		}
	}
	if first != "" {
		js, _ := json.Marshal(firstCase)
		fmt.Printf("VERIF-REPLAY-CASE: %s\n", js)
		nfail := 0
		for _, v := range fails {
			nfail += v
		}
		ex := ""
		for _, e := range examples {
			ex += "\n  " + e
		}
		t.Fatalf("%s\n%d (tail, sampled length) pairs failed in this shard (%d passed), by kind %v; examples:%s", first, nfail, st.evals, fails, ex)
	}
	c.Bulk(st.evals, st.nt)
	c.Class("padburst", st.evals)
	c.Class("padburst-one-packet", st.onePacket)
	c.Class("padburst-two-packets", st.twoPackets)
	c.Class("padburst-nothing-appended", st.none)
	c.Class("padburst-ends-at-sampled-length", st.exact)
	c.Class("padburst-ends-one-header-short(deployed obfsproxy behaviour)", st.headerShort)
	if shard == 0 {
		c.Sample(ev.Hash("padburst"), map[string]any{"unit": "padburst", "pairs_in_shard_0": st.evals, "max_bytes_appended": st.maxAppended,
			"ends_at_sampled_length": st.exact, "ends_one_header_short": st.headerShort})
		name := "padburst: (burst tail, whole segments in front, sampled length 21..1448), "
		if ev.Thorough() {
			name += "every tail 0..1447"
		} else {
			name += fmt.Sprintf("%d boundary tails", len(tails))
		}
		c.Subspace(name, total)
	}
}
