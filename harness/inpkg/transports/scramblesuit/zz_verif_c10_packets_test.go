//go:build verif

package scramblesuit

// C10 ScrambleSuit stage 2: an established connection is sent packets that
// carry a VALID MAC (computed by the reference server) but hostile header
// fields, mixed with well-formed packets, raw garbage and client writes.

import (
	"fmt"
	"os"
	"strings"
	"testing"

	"pgregory.net/rapid"

	"gitlab.com/yawning/obfs4.git/internal/verifkit/ev"
	"gitlab.com/yawning/obfs4.git/internal/verifkit/refss"
	"gitlab.com/yawning/obfs4.git/internal/verifkit/wire"
)

const (
	vf10ItData    = 0 // well-formed payload packet
	vf10ItRaw     = 1 // header fields verbatim, valid MAC
	vf10ItGarbage = 2 // bytes without any structure
	vf10ItTicket  = 3 // well-formed NEW_TICKET (contents hostile or not)
	vf10ItSeed    = 4 // well-formed PRNG_SEED
	vf10ItWrite   = 5 // the client application writes
	vf10ItKinds   = 6
)

type vf10Item struct {
	Kind    int
	Total   int // raw: total length field
	Payload int // raw: payload length field; data: payload bytes
	Flags   byte
	Body    int // raw: body bytes actually sent (-1: as many as Total says)
	N       int // garbage / write / padding length
	Fill    byte
}

func (it vf10Item) String() string {
	switch it.Kind {
	case vf10ItData:
		return fmt.Sprintf("data(%d+%d)", it.Payload, it.N)
	case vf10ItRaw:
		return fmt.Sprintf("raw(total=%d payload=%d flags=%#x body=%d)", it.Total, it.Payload, it.Flags, it.Body)
	case vf10ItGarbage:
		return fmt.Sprintf("garbage(%d x %#x)", it.N, it.Fill)
	case vf10ItTicket:
		return fmt.Sprintf("ticket(fill %#x +%d)", it.Fill, it.N)
	case vf10ItSeed:
		return fmt.Sprintf("seed(fill %#x +%d)", it.Fill, it.N)
	}
	return fmt.Sprintf("C:write(%d)", it.N)
}

// wellFormed reports whether a raw item is a packet the deployed format
// allows, and whether it carries application payload.
func (it vf10Item) wellFormed() (ok, carries bool) {
	body := it.Body
	if body < 0 {
		body = it.Total
	}
	if it.Payload > it.Total || it.Total > maxPayloadLength || body != it.Total {
		return false, false
	}
	switch it.Flags {
	case pktPayload:
		return true, true
	case pktNewTicket:
		return it.Payload == ticketKeyLength+ticketLength, false
	case pktPrngSeed:
		return it.Payload == pktPrngSeedLength, false
	}
	return false, false
}

type vf10Pk struct {
	Seed    uint64
	UDH     bool // UniformDH handshake first (default: ticket handshake, no modular exponentiation)
	Items   []vf10Item
	Chunks  []int
	Burst   int
	Buf     int
	Small   int // cap every wire Read of the client to this many bytes (0: none)
	Ending  int // EOF or read error
	DirGone bool
	Cache   bool
}

type vf10PkResult struct {
	stream    int
	want      []byte // payload of the well-formed packets in front of the first fatal item
	all       []byte // payload of every well-formed payload packet
	fatalAt   int    // index of the first item a conforming receiver cannot continue after (-1: none)
	hostile   int    // authenticated packets with hostile fields
	readErr   error
	delivered int
	consumed  int64
	writes    int
}

func (p *vf10Pk) describe(r *vf10PkResult) string {
	var its []string
	for i, it := range p.Items {
		if i == 24 {
			its = append(its, fmt.Sprintf("...(%d items)", len(p.Items)))
			break
		}
		its = append(its, it.String())
	}
	return fmt.Sprintf("  case: seed=%#x udh=%v items=[%s] chunks=%v burst=%d buf=%d smallreads=%d ending=%s statedir-removed=%v\n  outcome: %d stream bytes, first fatal item %d, read err=%v, consumed %d, delivered %d (well-formed before the first fatal item: %d, in all: %d)",
		p.Seed, p.UDH, strings.Join(its, " "), vf10Short(p.Chunks), p.Burst, p.Buf, p.Small, vf10EndNames[p.Ending], p.DirGone,
		r.stream, r.fatalAt, r.readErr, r.consumed, r.delivered, len(r.want), len(r.all))
}

// vf10RunPk runs one established-stage case.
func vf10RunPk(p *vf10Pk) (string, *vf10PkResult) {
	r := &vf10PkResult{fatalAt: -1}
	c, err := vf10Dial(p.Seed, !p.UDH, p.Cache)
	if err != nil {
		return "INFRA: " + err.Error(), r
	}
	defer c.close()
	c.ep.SetBuf(p.Buf)
	if msg := c.readHello(); msg != "" {
		return msg, r
	}
	fin := func(msg string) (string, *vf10PkResult) {
		r.readErr, r.delivered, r.consumed = c.ep.ReadErr(), c.ep.GotLen(), c.n.Consumed(wire.B)
		return msg, r
	}
	total := int64(0)
	if p.UDH {
		c.udhSession(p.Seed)
		resp := c.sess.Response(nil) // minimum padding
		total += int64(len(resp))
		if msg := c.feed(resp, nil, 1); msg != "" {
			return fin(msg)
		}
	}
	if !c.ep.SetupDone() || c.ep.SetupErr() != nil {
		return fin(fmt.Sprintf("INFRA: handshake with the reference server did not complete (done=%v err=%v)", c.ep.SetupDone(), c.ep.SetupErr()))
	}
	if msg := c.deadlines(); msg != "" {
		return fin(msg)
	}
	if p.Small > 0 {
		c.n.SmallReads(wire.A, p.Small)
	}
	if p.DirGone {
		_ = os.RemoveAll(c.dir)
	}
	// the server's stream; client writes are performed when the stream built so
	// far has been delivered
	var pend []byte
	flush := func() string {
		if len(pend) == 0 {
			return ""
		}
		total += int64(len(pend))
		r.stream += len(pend)
		msg := c.feed(pend, p.Chunks, p.Burst)
		pend = nil
		return msg
	}
	for i, it := range p.Items {
		fatal := false
		switch it.Kind {
		case vf10ItData:
			pl := vf10Repeat([]byte{it.Fill, byte(i), 0x10}, it.Payload, p.Seed)
			pend = append(pend, c.sess.Packet(refss.FlagPayload, pl, it.N)...)
			r.all = append(r.all, pl...)
			if r.fatalAt < 0 {
				r.want = append(r.want, pl...)
			}
		case vf10ItRaw:
			n := it.Body
			if n < 0 {
				n = it.Total
			}
			body := vf10Repeat([]byte{it.Fill, byte(i), 0x11}, n, p.Seed)
			pend = append(pend, c.sess.RawPacket(uint16(it.Total), uint16(it.Payload), it.Flags, body)...)
			ok, carries := it.wellFormed()
			fatal = !ok
			if !ok || it.Flags != pktPayload {
				r.hostile++
			}
			if carries {
				r.all = append(r.all, body[:it.Payload]...)
				if r.fatalAt < 0 {
					r.want = append(r.want, body[:it.Payload]...)
				}
			}
		case vf10ItGarbage:
			if it.N > 0 {
				pend = append(pend, vf10Repeat([]byte{it.Fill}, it.N, p.Seed)...)
				fatal = true
			}
		case vf10ItTicket:
			pend = append(pend, c.sess.Packet(refss.FlagNewTicket, vf10Repeat([]byte{it.Fill}, ticketKeyLength+ticketLength, p.Seed+uint64(i)), it.N)...)
			r.hostile++
		case vf10ItSeed:
			pend = append(pend, c.sess.Packet(refss.FlagPrngSeed, vf10Repeat([]byte{it.Fill}, pktPrngSeedLength, p.Seed+uint64(i)), it.N)...)
			r.hostile++
		case vf10ItWrite:
			if msg := flush(); msg != "" {
				return fin(msg)
			}
			res, _, _ := c.ep.Write(vf10Repeat([]byte{it.Fill}, it.N, p.Seed))
			r.writes++
			if res.Panic != nil {
				return fin(fmt.Sprintf("VIOL[c10-scramblesuit-panic]: client Write(%d bytes) after item %d: %s", it.N, i, res.String()))
			}
			if res.TimedOut {
				return fin(fmt.Sprintf("VIOL[c10-scramblesuit-wedge]: client Write(%d bytes) did not return within 60 s\n%s", it.N, res.Stack))
			}
			c.n.Take(wire.A)
		}
		if fatal && r.fatalAt < 0 {
			r.fatalAt = i
		}
	}
	if msg := flush(); msg != "" {
		return fin(msg)
	}
	if msg := c.end(p.Ending, total); msg != "" {
		return fin(msg)
	}
	if msg := c.deadlines(); msg != "" {
		return fin(msg)
	}
	got := c.ep.Got()
	if !vf10IsPrefix(got, r.all) {
		return fin(fmt.Sprintf("VIOL[c10-scramblesuit-bogus-data]: the client delivered %d bytes that are not a prefix of the %d bytes carried by well-formed payload packets (first difference at %d)", len(got), len(r.all), vf15FirstDiff(got, r.all)))
	}
	if p.Buf >= 65536 && len(got) != len(r.want) {
		return fin(fmt.Sprintf("VIOL[c10-scramblesuit-delivery]: %d well-formed payload bytes preceded the first fatal item (%d), the client delivered %d before reporting %v", len(r.want), r.fatalAt, len(got), c.ep.ReadErr()))
	}
	return fin("")
}

func vf10PkCase(c *ev.Collector, base string, p *vf10Pk, r *vf10PkResult, keep bool) {
	cls := []string{base}
	if base == "scramblesuit-packets" {
		seen := map[string]bool{}
		for _, it := range p.Items {
			var k string
			switch it.Kind {
			case vf10ItRaw:
				ok, _ := it.wellFormed()
				switch {
				case it.Payload > it.Total:
					k = "payload>total"
				case it.Total > maxPayloadLength:
					k = "total>1427"
				case it.Body >= 0 && it.Body != it.Total:
					k = "body!=total"
				case it.Flags == pktNewTicket && !ok:
					k = "ticket-wrong-length"
				case it.Flags == pktPrngSeed && !ok:
					k = "seed-wrong-length"
				case !ok:
					k = "unknown-flags"
				default:
					k = "raw-well-formed"
				}
			case vf10ItGarbage:
				k = "garbage"
			case vf10ItTicket:
				k = "ticket"
			case vf10ItSeed:
				k = "seed"
			case vf10ItWrite:
				k = "client-write"
			}
			if k != "" && !seen[k] {
				seen[k] = true
				cls = append(cls, base+"-"+k)
			}
		}
		if p.UDH {
			cls = append(cls, base+"-after-uniformdh")
		}
		if p.DirGone {
			cls = append(cls, base+"-statedir-removed")
		}
		if r.fatalAt < 0 {
			cls = append(cls, base+"-no-fatal-item")
		}
		if r.delivered > 0 {
			cls = append(cls, base+"-data-delivered")
		}
		if r.stream >= 65536 {
			cls = append(cls, base+"->=64KiB")
		}
	}
	if !keep {
		c.Case(0, false, cls, nil)
		return
	}
	c.Case(ev.Hash(p.Seed, p.UDH, fmt.Sprint(p.Items), fmt.Sprint(len(p.Chunks), p.Burst, p.Buf, p.Small, p.Ending, p.DirGone)), r.hostile > 0, cls, func() any {
		d := p.describe(r)
		if len(d) > 1500 {
			d = d[:1500] + "..."
		}
		return map[string]any{"stage": base, "case": d}
	})
}

// vf10HostileTable lists header combinations worth hitting directly.
var vf10HostileTable = []vf10Item{
	{Kind: vf10ItRaw, Total: 0, Payload: 0, Flags: 0, Body: -1},                         // zero-length everything
	{Kind: vf10ItRaw, Total: 0, Payload: 1, Flags: pktPayload, Body: -1},                // payload > total, no body
	{Kind: vf10ItRaw, Total: 5, Payload: 6, Flags: pktPayload, Body: -1},                // payload > total
	{Kind: vf10ItRaw, Total: 10, Payload: 65535, Flags: pktPayload, Body: -1},           //
	{Kind: vf10ItRaw, Total: 0, Payload: 65535, Flags: pktNewTicket, Body: -1},          //
	{Kind: vf10ItRaw, Total: 1428, Payload: 0, Flags: pktPayload, Body: -1},             // total > 1427
	{Kind: vf10ItRaw, Total: 1428, Payload: 1428, Flags: pktPayload, Body: -1},          //
	{Kind: vf10ItRaw, Total: 65535, Payload: 65535, Flags: pktPayload, Body: -1},        // maximum, body really sent
	{Kind: vf10ItRaw, Total: 65535, Payload: 0, Flags: pktPayload, Body: 0},             // maximum, nothing follows
	{Kind: vf10ItRaw, Total: 65535, Payload: 65535, Flags: 0xff, Body: 100},             //
	{Kind: vf10ItRaw, Total: 0, Payload: 0, Flags: pktNewTicket, Body: -1},              // payload length 0 with flags set
	{Kind: vf10ItRaw, Total: 0, Payload: 0, Flags: pktPrngSeed, Body: -1},               //
	{Kind: vf10ItRaw, Total: 100, Payload: 0, Flags: pktNewTicket, Body: -1},            //
	{Kind: vf10ItRaw, Total: 100, Payload: 0, Flags: pktPrngSeed, Body: -1},             //
	{Kind: vf10ItRaw, Total: 10, Payload: 10, Flags: 0, Body: -1},                       // unknown flags
	{Kind: vf10ItRaw, Total: 10, Payload: 10, Flags: 3, Body: -1},                       //
	{Kind: vf10ItRaw, Total: 10, Payload: 10, Flags: 5, Body: -1},                       //
	{Kind: vf10ItRaw, Total: 10, Payload: 10, Flags: 6, Body: -1},                       //
	{Kind: vf10ItRaw, Total: 10, Payload: 10, Flags: 8, Body: -1},                       //
	{Kind: vf10ItRaw, Total: 144, Payload: 144, Flags: 0x82, Body: -1},                  //
	{Kind: vf10ItRaw, Total: 32, Payload: 32, Flags: 0x84, Body: -1},                    //
	{Kind: vf10ItRaw, Total: 10, Payload: 10, Flags: 0xff, Body: -1},                    //
	{Kind: vf10ItRaw, Total: 143, Payload: 143, Flags: pktNewTicket, Body: -1},          // NEW_TICKET of wrong length
	{Kind: vf10ItRaw, Total: 145, Payload: 145, Flags: pktNewTicket, Body: -1},          //
	{Kind: vf10ItRaw, Total: 1427, Payload: 1427, Flags: pktNewTicket, Body: -1},        //
	{Kind: vf10ItRaw, Total: 144, Payload: 112, Flags: pktNewTicket, Body: -1},          //
	{Kind: vf10ItRaw, Total: 144, Payload: 32, Flags: pktNewTicket, Body: -1},           //
	{Kind: vf10ItRaw, Total: 1, Payload: 1, Flags: pktNewTicket, Body: -1},              //
	{Kind: vf10ItRaw, Total: 31, Payload: 31, Flags: pktPrngSeed, Body: -1},             // PRNG_SEED of wrong length
	{Kind: vf10ItRaw, Total: 33, Payload: 33, Flags: pktPrngSeed, Body: -1},             //
	{Kind: vf10ItRaw, Total: 24, Payload: 24, Flags: pktPrngSeed, Body: -1},             // the DRBG's own seed length
	{Kind: vf10ItRaw, Total: 23, Payload: 23, Flags: pktPrngSeed, Body: -1},             //
	{Kind: vf10ItRaw, Total: 1427, Payload: 1427, Flags: pktPrngSeed, Body: -1},         //
	{Kind: vf10ItRaw, Total: 1, Payload: 1, Flags: pktPrngSeed, Body: -1},               //
	{Kind: vf10ItRaw, Total: 200, Payload: 100, Flags: pktPayload, Body: 150},           // body shorter than announced
	{Kind: vf10ItRaw, Total: 100, Payload: 100, Flags: pktPayload, Body: 200},           // body longer than announced
	{Kind: vf10ItRaw, Total: 144, Payload: 144, Flags: pktNewTicket, Body: -1, Fill: 0}, // well-formed tickets with odd contents
	{Kind: vf10ItRaw, Total: 1427, Payload: 144, Flags: pktNewTicket, Body: -1, Fill: 0xff},
	{Kind: vf10ItRaw, Total: 32, Payload: 32, Flags: pktPrngSeed, Body: -1, Fill: 0},
	{Kind: vf10ItRaw, Total: 1427, Payload: 32, Flags: pktPrngSeed, Body: -1, Fill: 0xff},
	{Kind: vf10ItRaw, Total: 1427, Payload: 1427, Flags: pktPayload, Body: -1},
	{Kind: vf10ItRaw, Total: 1427, Payload: 0, Flags: pktPayload, Body: -1},
	{Kind: vf10ItRaw, Total: 0, Payload: 0, Flags: pktPayload, Body: -1},
}

var vf10Lens = []int{0, 1, 2, 5, 15, 16, 17, 20, 21, 22, 31, 32, 33, 143, 144, 145, 700, 1426, 1427, 1428, 1448, 1532, 4096, 65535}

func vf10GenItem(rt *rapid.T) vf10Item {
	fill := rapid.SampledFrom([]byte{0, 0xff, 0xa5, 0x01}).Draw(rt, "fill")
	switch r := rapid.IntRange(0, 19).Draw(rt, "itemKind"); {
	case r < 5:
		pl := rapid.SampledFrom([]int{0, 1, 5, 100, 1426, 1427}).Draw(rt, "dataLen")
		pad := 0
		if room := maxPayloadLength - pl; room > 0 {
			pad = rapid.SampledFrom([]int{0, 1, room}).Draw(rt, "dataPad") % (room + 1)
		}
		return vf10Item{Kind: vf10ItData, Payload: pl, N: pad, Fill: fill}
	case r < 11:
		it := vf10HostileTable[rapid.IntRange(0, len(vf10HostileTable)-1).Draw(rt, "table")]
		if it.Fill == 0 {
			it.Fill = fill
		}
		return it
	case r < 14:
		it := vf10Item{Kind: vf10ItRaw, Fill: fill, Body: -1}
		it.Total = rapid.SampledFrom(vf10Lens).Draw(rt, "total")
		it.Payload = rapid.SampledFrom(vf10Lens).Draw(rt, "payload")
		it.Flags = rapid.SampledFrom([]byte{0, 1, 2, 3, 4, 5, 8, 0x10, 0x80, 0x81, 0xff}).Draw(rt, "flags")
		if rapid.IntRange(0, 3).Draw(rt, "bodyKind") == 0 {
			it.Body = rapid.SampledFrom(vf10Lens).Draw(rt, "body")
		}
		return it
	case r < 16:
		n := rapid.SampledFrom([]int{1, 15, 16, 20, 21, 22, 1448, 4096, 70000}).Draw(rt, "garbageLen")
		if rapid.IntRange(0, 19).Draw(rt, "garbageHuge") == 0 {
			n = 1 << 20
		}
		return vf10Item{Kind: vf10ItGarbage, N: n, Fill: rapid.Byte().Draw(rt, "garbageByte")}
	case r < 17:
		return vf10Item{Kind: vf10ItTicket, Fill: fill, N: rapid.SampledFrom([]int{0, 1, maxPayloadLength - ticketKeyLength - ticketLength}).Draw(rt, "ticketPad")}
	case r < 18:
		return vf10Item{Kind: vf10ItSeed, Fill: fill, N: rapid.SampledFrom([]int{0, 1, maxPayloadLength - pktPrngSeedLength}).Draw(rt, "seedPad")}
	default:
		return vf10Item{Kind: vf10ItWrite, Fill: fill, N: rapid.SampledFrom([]int{0, 1, 100, 1427, 1428, 3000}).Draw(rt, "writeLen")}
	}
}

func vf10GenPk(rt *rapid.T) *vf10Pk {
	p := &vf10Pk{Seed: rapid.Uint64Range(0, 1<<20).Draw(rt, "seed")}
	p.UDH = rapid.IntRange(0, 7).Draw(rt, "uniformdh") == 0
	k := rapid.IntRange(1, 10).Draw(rt, "items")
	for i := 0; i < k; i++ {
		p.Items = append(p.Items, vf10GenItem(rt))
	}
	p.Chunks, p.Burst = vf10GenChunks(rt, 21)
	p.Buf = vf10BufSizes[rapid.IntRange(0, len(vf10BufSizes)-1).Draw(rt, "buf")]
	p.Small = rapid.SampledFrom([]int{0, 0, 0, 1, 5, 16, 21}).Draw(rt, "smallReads")
	p.Ending = rapid.IntRange(0, 2).Draw(rt, "ending")
	p.DirGone = rapid.IntRange(0, 5).Draw(rt, "stateDirRemoved") == 0
	return p
}

const vf10PkRule = "after a real handshake (ticket handshake with an in-package stored ticket, 1 in 8 UniformDH with minimum padding) the reference server sends 1..10 items: well-formed payload packets; packets with a VALID MAC and verbatim header fields from a table (payload > total, total 1428 / 65535 with and without the announced body, zero-length everything, payload length 0 with NEW_TICKET / PRNG_SEED flags, unknown flag bits 0/3/5/6/8/0x82/0x84/0xff, NEW_TICKET of 1/32/112/143/145/1427 bytes, PRNG_SEED of 1/23/24/31/33/1427 bytes, body shorter / longer than announced) or drawn field by field; raw garbage of 1 byte .. 1 MiB; well-formed NEW_TICKET / PRNG_SEED packets with all-0 / all-1 contents (ticket file written, optionally after the state directory was removed); client Writes of 0..3000 bytes in between; chunk plans as in the handshake stage, reader buffers 65536/1/7/1427, wire reads capped to 0/1/5/16/21 bytes; ended by EOF, a read error, or an attempt to fire a deadline (there must be none); oracle: no panic, no wedge, Read returns an error at quiescence after the input ended, receiveBuffer / receiveDecodedBuffer <= 4512 bytes (cap <= 4 x) at every quiescence, delivered bytes are a prefix of what well-formed payload packets carried and, with a 64 KiB reader buffer, exactly the payload in front of the first item a receiver cannot continue after; non-trivial = at least one authenticated packet with hostile fields or non-payload flags"

func TestVerifC10ScramblesuitPackets(t *testing.T) {
	if err := vf15Anchors(); err != nil {
		t.Fatalf("INFRA: reference server anchors: %v", err)
	}
	c := vf10Ev()
	c.Rule("scramblesuit-packets: " + vf10PkRule + "; fingerprint = item list + plan")
	for _, k := range []string{"payload>total", "total>1427", "unknown-flags", "ticket-wrong-length", "seed-wrong-length", "garbage", "ticket", "seed", "client-write"} {
		c.Floor("scramblesuit-packets-"+k+"/scramblesuit-packets", 0.05)
	}
	c.Floor("scramblesuit-packets-after-uniformdh/scramblesuit-packets", 0.04)
	rapid.Check(t, func(rt *rapid.T) {
		p := vf10GenPk(rt)
		msg, r := vf10RunPk(p)
		if vf10Unstoppable(msg) {
			vf10Abort("TestVerifC10ScramblesuitPackets", msg+"\n"+p.describe(r))
		}
		if msg != "" {
			rt.Fatalf("%s\n%s", msg, p.describe(r))
		}
		vf10PkCase(c, "scramblesuit-packets", p, r, true)
	})
}

// vf10DecodePk maps fuzz input onto the same case structure.  Program: one
// opcode byte per item (low 3 bits = kind, 6/7 = table entry), followed by the
// kind's parameter bytes.
func vf10DecodePk(prog, plan []byte, flags uint16) *vf10Pk {
	p := &vf10Pk{Seed: 0xf023, Cache: true}
	p.UDH = flags&0x7 == 7
	p.Buf = vf10BufSizes[flags>>3&3]
	p.Small = []int{0, 0, 1, 5, 16, 21, 0, 0}[flags>>5&7]
	p.Ending = int(flags>>8&3) % 3
	p.DirGone = flags>>10&7 == 7
	p.Burst = []int{1, 1, 2, 5, 16, 64, 256, 1000}[flags>>13&7]
	p.Chunks = vf10Chunks(plan)
	next := func() int {
		if len(prog) == 0 {
			return 0
		}
		b := prog[0]
		prog = prog[1:]
		return int(b)
	}
	length := func() int {
		b := next()
		if b < len(vf10Lens) {
			return vf10Lens[b]
		}
		return b * 6
	}
	for len(prog) > 0 && len(p.Items) < 24 {
		op := next()
		fill := byte(op >> 3 * 9)
		switch op & 7 {
		case vf10ItData:
			pl := length() % (maxPayloadLength + 1)
			p.Items = append(p.Items, vf10Item{Kind: vf10ItData, Payload: pl, N: next() % (maxPayloadLength - pl + 1), Fill: fill})
		case vf10ItRaw:
			it := vf10Item{Kind: vf10ItRaw, Fill: fill, Body: -1}
			it.Total = next()<<8 | next()
			it.Payload = next()<<8 | next()
			it.Flags = byte(next())
			if b := next(); b != 0 {
				it.Body = vf10Lens[b%len(vf10Lens)]
			}
			p.Items = append(p.Items, it)
		case vf10ItGarbage:
			n := length()
			if op>>3 == 31 {
				n = 1 << 20
			}
			p.Items = append(p.Items, vf10Item{Kind: vf10ItGarbage, N: n, Fill: byte(next())})
		case vf10ItTicket:
			p.Items = append(p.Items, vf10Item{Kind: vf10ItTicket, Fill: fill, N: next() % 64})
		case vf10ItSeed:
			p.Items = append(p.Items, vf10Item{Kind: vf10ItSeed, Fill: fill, N: next() % 64})
		case vf10ItWrite:
			p.Items = append(p.Items, vf10Item{Kind: vf10ItWrite, Fill: fill, N: length() % 5000})
		default:
			it := vf10HostileTable[next()%len(vf10HostileTable)]
			if it.Fill == 0 {
				it.Fill = fill
			}
			p.Items = append(p.Items, it)
		}
	}
	return p
}

func FuzzVerifC10ScramblesuitPackets(f *testing.F) {
	if err := vf15Anchors(); err != nil {
		f.Fatalf("INFRA: reference server anchors: %v", err)
	}
	c := vf10Ev()
	c.Rule("scramblesuit-fuzz-packets: (program, chunk plan, flags) decoded into the structure of scramblesuit-packets: per item an opcode byte (kind = low 3 bits: data, raw header fields [total(2) payload(2) flags(1) body-length code], garbage, NEW_TICKET, PRNG_SEED, client write, table entry) and its parameter bytes, at most 24 items; flags: UniformDH handshake iff low 3 bits = 7, reader buffer, wire read cap, ending, state directory removed, burst; fixed client key; oracle as scramblesuit-packets")
	for i := range vf10HostileTable {
		f.Add([]byte{0, 3, 0, 6, byte(i), 0, 4, 1}, []byte{}, uint16(i%4<<3|i%3<<8))
		f.Add([]byte{6, byte(i), 5, 3, 0, 2, 0}, []byte{0, 20}, uint16(2<<5|1<<13))
	}
	f.Add([]byte{1, 0xff, 0xff, 0xff, 0xff, 1, 0}, []byte{}, uint16(0))
	f.Add([]byte{1, 0xff, 0xff, 0, 0, 1, 0, 2, 23, 0}, []byte{0x90}, uint16(0))
	f.Add([]byte{1, 0, 5, 0, 6, 1, 0, 0, 3, 0}, []byte{}, uint16(7))
	f.Add([]byte{3, 0, 0x0b, 5, 4, 9, 5, 3, 0xfb, 0, 2, 22, 7}, []byte{4}, uint16(7<<10))
	f.Add([]byte{0xfa, 0, 0}, []byte{0xff}, uint16(1<<8))
	f.Add([]byte{}, []byte{}, uint16(0))
	f.Fuzz(func(t *testing.T, prog, plan []byte, flags uint16) {
		if len(prog) > 512 {
			prog = prog[:512]
		}
		p := vf10DecodePk(prog, plan, flags)
		msg, r := vf10RunPk(p)
		if vf10Unstoppable(msg) {
			vf10Abort("FuzzVerifC10ScramblesuitPackets", msg+"\n"+p.describe(r)+fmt.Sprintf("\n  fuzz input: prog=%x plan=%x flags=%#x", prog, plan, flags))
		}
		if msg != "" {
			t.Fatalf("%s\n%s", msg, p.describe(r))
		}
		vf10PkCase(c, "scramblesuit-fuzz-packets", p, r, vf10FuzzCases.Add(1) <= vf10FuzzFingerprintCap)
	})
}
