//go:build verif

package x25519ell2

// C07 — Elligator 2 key generation and decoding are consistent: differential
// against math/big Elligator 2 / X25519 / Edwards arithmetic.

import (
	"bytes"
	"fmt"
	"math/big"
	"sync"
	"testing"

	"golang.org/x/crypto/curve25519"
	"pgregory.net/rapid"

	"gitlab.com/yawning/obfs4.git/internal/verifkit/detrand"
	"gitlab.com/yawning/obfs4.git/internal/verifkit/ev"
	"gitlab.com/yawning/obfs4.git/internal/verifkit/refx"
)

var (
	vf07Once  sync.Once
	vf07Err   error
	vf07Low   [8]refx.Pt
	vf07Base  refx.Ext
	vf07Table [8]int // low 3 key bits -> index of the low-order point the implementation adds
	vf07Mu    sync.Mutex
	vf07Seen  = map[int]bool{} // cosets observed on successful encodings
)

// vf07Dirty returns, for every low-order point L_j, the u-coordinate of [clamp k]B + L_j.
func vf07Dirty(k []byte) [8]*big.Int {
	p := vf07Base.Mul(refx.Clamp(k))
	var out [8]*big.Int
	for j, l := range vf07Low {
		out[j] = p.Add(l.ToExt()).Affine().MontU()
	}
	return out
}

// vf07Setup anchors the reference and learns which low-order point the
// implementation adds for each value of the low three key bits (an
// implementation choice the property does not fix): it is read off successful
// encodings as pub - [clamp k]B, computed with the reference arithmetic.
func vf07Setup(t testing.TB) {
	vf07Once.Do(func() {
		if vf07Err = refx.SelfTest(); vf07Err != nil {
			return
		}
		if vf07Err = refx.SelfTestFast(); vf07Err != nil {
			return
		}
		vf07Low = refx.LowOrder()
		vf07Base = refx.Base().ToExt()
		for c := 0; c < 8; c++ {
			vf07Table[c] = -1
			for try := uint64(0); try < 200 && vf07Table[c] < 0; try++ {
				k := detrand.Bytes(0x7e110000+uint64(c)*1000+try, 32)
				k[0] = k[0]&0xf8 | byte(c)
				var pub, repr, priv [32]byte
				copy(priv[:], k)
				if !ScalarBaseMult(&pub, &repr, &priv, 0) {
					continue
				}
				d := vf07Dirty(k)
				for j := range d {
					le := refx.ToLE(d[j])
					if bytes.Equal(le[:], pub[:]) {
						if vf07Table[c] >= 0 {
							vf07Err = fmt.Errorf("public key matches two low-order offsets")
							return
						}
						vf07Table[c] = j
					}
				}
				if vf07Table[c] < 0 {
					vf07Err = fmt.Errorf("VIOL[c07-not-in-coset]: public key %x for private key %x is not [clamp k]B plus a low-order point", pub, k)
					return
				}
			}
			if vf07Table[c] < 0 {
				vf07Err = fmt.Errorf("no successful encoding in 200 tries for low key bits %d", c)
				return
			}
		}
	})
	if vf07Err != nil {
		if len(vf07Err.Error()) > 5 && vf07Err.Error()[:5] == "VIOL[" {
			t.Fatalf("%v", vf07Err)
		}
		t.Fatalf("INFRA: %v", vf07Err)
	}
}

func vf07Key(rt *rapid.T) []byte {
	switch rapid.IntRange(0, 9).Draw(rt, "keyClass") {
	case 0:
		return make([]byte, 32)
	case 1:
		return bytes.Repeat([]byte{0xff}, 32)
	case 2:
		b := make([]byte, 32)
		bit := rapid.IntRange(0, 255).Draw(rt, "keyBit")
		b[bit/8] = 1 << uint(bit%8)
		return b
	case 3: // already clamped
		b := detrand.Bytes(rapid.Uint64().Draw(rt, "key"), 32)
		b[0] &= 248
		b[31] = b[31]&127 | 64
		return b
	default:
		b := detrand.Bytes(rapid.Uint64().Draw(rt, "key"), 32)
		b[0] = b[0]&0xf8 | byte(rapid.IntRange(0, 7).Draw(rt, "lowBits"))
		return b
	}
}

func TestVerifC07Encode(t *testing.T) {
	vf07Setup(t)
	c := ev.For("C07")
	c.Rule("encode: generated 32-byte private keys (uniform with each value of the low three bits, all-zero, all-ff, single bit, already clamped) x tweak 0..255, the output arrays handed to the calls holding zeros, ff, random bytes or earlier results; oracle: the ok / no-representative answer equals the reference predicate '-2u(u+A) is a non-zero square' for the dirty public key u = u([clamp k]B + L) computed in math/big (L = the low-order point learned per value of the low three key bits); on success the public key equals that u, the representative decodes to it both in the implementation and in the reference map, representative top bits == tweak bits 6-7 and the low 254 bits do not depend on them, X25519(s, pub) == X25519(s, clean public key) for a random s in the reference ladder and in x/crypto, pub - [clamp k]B is a low-order point determined by the low three key bits; all 8 cosets must occur; non-trivial = successful encoding; fingerprint = key, tweak")
	rapid.Check(t, func(rt *rapid.T) {
		k := vf07Key(rt)
		tweak := byte(rapid.IntRange(0, 255).Draw(rt, "tweak"))
		var pub, repr, priv [32]byte
		copy(priv[:], k)
		// the caller's output arrays are not necessarily zero (re-used between calls, or never cleared):
		// the results are a function of key and tweak alone
		dirtyOut := rapid.SampledFrom([]string{"zero", "ff", "random", "random"}).Draw(rt, "outputArrays")
		switch dirtyOut {
		case "ff":
			for i := range pub {
				pub[i], repr[i] = 0xff, 0xff
			}
		case "random":
			copy(pub[:], detrand.Bytes(rapid.Uint64().Draw(rt, "dirtyPub"), 32))
			copy(repr[:], detrand.Bytes(rapid.Uint64().Draw(rt, "dirtyRepr"), 32))
		}
		ok := ScalarBaseMult(&pub, &repr, &priv, tweak)
		if !bytes.Equal(priv[:], k) {
			rt.Fatalf("VIOL[c07-private-key-modified]: ScalarBaseMult changed its private key argument")
		}
		d := vf07Dirty(k)
		u := d[vf07Table[int(k[0]&7)]]
		want := refx.Representable(u)
		if ok != want {
			rt.Fatalf("VIOL[c07-representable-answer]: ScalarBaseMult(%x, tweak %d) = %v, but the dirty public key %x is representable = %v", k, tweak, ok, refx.ToLE(u), want)
		}
		cls := []string{fmt.Sprintf("low-bits-%d", k[0]&7)}
		if dirtyOut != "zero" {
			cls = append(cls, "output-arrays-not-zero")
		}
		if !ok {
			c.Case(ev.Hash(k, tweak), false, append(cls, "no-representative"), nil)
			return
		}
		ule := refx.ToLE(u)
		if !bytes.Equal(pub[:], ule[:]) {
			// is it in another coset, or not in any?
			where := -1
			for j := range d {
				le := refx.ToLE(d[j])
				if bytes.Equal(le[:], pub[:]) {
					where = j
				}
			}
			if where < 0 {
				rt.Fatalf("VIOL[c07-not-in-coset]: public key %x for private key %x is not [clamp k]B plus a low-order point", pub, k)
			}
			rt.Fatalf("VIOL[c07-coset-not-function-of-low-bits]: key %x (low bits %d) landed in coset %d, other keys with these low bits in coset %d", k, k[0]&7, where, vf07Table[int(k[0]&7)])
		}
		dec := repr // (not zero either)
		RepresentativeToPublicKey(&dec, &repr)
		if dec != pub {
			rt.Fatalf("VIOL[c07-roundtrip]: representative %x of public key %x decodes to %x (key %x, tweak %d)", repr, pub, dec, k, tweak)
		}
		refDec := refx.ToLE(refx.MapToU(repr[:]))
		if refDec != pub {
			rt.Fatalf("VIOL[c07-reference-map]: representative %x maps to %x in the reference Elligator 2 map, public key is %x", repr, refDec, pub)
		}
		if repr[31]&0xc0 != tweak&0xc0 {
			rt.Fatalf("VIOL[c07-top-bits]: representative top bits %02x, tweak top bits %02x", repr[31]&0xc0, tweak&0xc0)
		}
		for _, x := range []byte{0x40, 0x80, 0xc0} {
			pub2, repr2 := repr, pub // re-used arrays holding earlier results
			if !ScalarBaseMult(&pub2, &repr2, &priv, tweak^x) {
				rt.Fatalf("VIOL[c07-representable-answer]: answer depends on tweak bits 6-7")
			}
			a, b := repr, repr2
			a[31] &= 0x3f
			b[31] &= 0x3f
			if a != b || pub2 != pub {
				rt.Fatalf("VIOL[c07-low-bits-depend-on-pad-bits]: tweak %02x and %02x give representatives %x / %x", tweak, tweak^x, repr, repr2)
			}
		}
		// the other root (tweak bit 0) must decode to the same public key
		var pub3, repr3 [32]byte
		if !ScalarBaseMult(&pub3, &repr3, &priv, tweak^1) || pub3 != pub {
			rt.Fatalf("VIOL[c07-representable-answer]: tweak bit 0 changes the public key or the answer")
		}
		var dec3 [32]byte
		RepresentativeToPublicKey(&dec3, &repr3)
		if dec3 != pub {
			rt.Fatalf("VIOL[c07-roundtrip]: representative %x (tweak %d) decodes to %x, public key %x", repr3, tweak^1, dec3, pub)
		}
		// DH with the dirty key agrees with standard X25519 on the clean key
		s := detrand.Bytes(rapid.Uint64().Draw(rt, "peerScalar"), 32)
		clean, err := curve25519.X25519(k, curve25519.Basepoint)
		if err != nil {
			rt.Fatalf("INFRA: %v", err)
		}
		want1 := refx.X25519(s, clean)
		got1 := refx.X25519(s, pub[:])
		if want1 != got1 {
			rt.Fatalf("VIOL[c07-dh-differs]: reference X25519(s, dirty public key) != X25519(s, clean public key) for key %x", k)
		}
		lib1, err1 := curve25519.X25519(s, pub[:])
		lib2, err2 := curve25519.X25519(s, clean)
		if err1 != nil || err2 != nil || !bytes.Equal(lib1, lib2) || !bytes.Equal(lib1, want1[:]) {
			rt.Fatalf("VIOL[c07-dh-differs]: x/crypto X25519 with the dirty and the clean public key disagree (%v %v) for key %x", err1, err2, k)
		}
		vf07Mu.Lock()
		vf07Seen[vf07Table[int(k[0]&7)]] = true
		vf07Mu.Unlock()
		c.Case(ev.Hash(k, tweak), true, append(cls, "encoded"), func() any {
			return map[string]any{"private_key": ev.Hex(k), "tweak": tweak, "public_key": ev.Hex(pub[:]), "representative": ev.Hex(repr[:]), "coset": vf07Table[int(k[0]&7)]}
		})
	})
	onto := map[int]bool{}
	for _, j := range vf07Table {
		onto[j] = true
	}
	c.Set("low_order_points_used", len(onto))
	if len(onto) != 8 {
		t.Fatalf("VIOL[c07-cosets-missing]: the 8 values of the low three key bits select only %d distinct low-order points (%v): public keys do not cover all eight cosets", len(onto), vf07Table)
	}
}

func vf07Repr(rt *rapid.T) []byte {
	p := refx.P
	pick := func(x *big.Int) []byte { le := refx.ToLE(x); return append([]byte(nil), le[:]...) }
	raw := func(x *big.Int) []byte { // little-endian without reduction (values up to 2^256-1)
		out := make([]byte, 32)
		be := x.Bytes()
		for i := range be {
			if i < 32 {
				out[i] = be[len(be)-1-i]
			}
		}
		return out
	}
	one := big.NewInt(1)
	switch rapid.IntRange(0, 15).Draw(rt, "reprClass") {
	case 0:
		return make([]byte, 32)
	case 1:
		return pick(one)
	case 2:
		return pick(big.NewInt(2))
	case 3:
		return raw(new(big.Int).Sub(p, one))
	case 4:
		return raw(p)
	case 5:
		return raw(new(big.Int).Add(p, one))
	case 6:
		return raw(new(big.Int).Rsh(new(big.Int).Sub(p, one), 1))
	case 7:
		return raw(new(big.Int).Rsh(new(big.Int).Add(p, one), 1))
	case 8:
		return raw(new(big.Int).Sub(new(big.Int).Lsh(one, 254), one))
	case 9:
		return raw(new(big.Int).Lsh(one, 254))
	case 10:
		return bytes.Repeat([]byte{0xff}, 32)
	case 11:
		return raw(refx.SqrtM1)
	case 12:
		b := make([]byte, 32)
		bit := rapid.IntRange(0, 255).Draw(rt, "reprBit")
		b[bit/8] = 1 << uint(bit%8)
		return b
	case 13:
		b := detrand.Bytes(rapid.Uint64().Draw(rt, "repr"), 32)
		b[31] = byte(rapid.SampledFrom([]int{0x3f, 0x7f, 0xff, 0x40, 0x80, 0xc0}).Draw(rt, "topByte"))
		return b
	default:
		return detrand.Bytes(rapid.Uint64().Draw(rt, "repr"), 32)
	}
}

func vf07DecodeOne(r []byte) string {
	var in, out [32]byte
	copy(in[:], r)
	var pv any
	func() {
		defer func() { pv = recover() }()
		RepresentativeToPublicKey(&out, &in)
	}()
	if pv != nil {
		return fmt.Sprintf("VIOL[c07-decode-panic]: RepresentativeToPublicKey(%x) panicked: %v", r, pv)
	}
	if !bytes.Equal(in[:], r) {
		return fmt.Sprintf("VIOL[c07-decode-mutates-input]: RepresentativeToPublicKey changed the representative it was given from %x to %x (a representative that is decoded and then sent or compared must keep its top bits)", r, in)
	}
	want := refx.ToLE(refx.MapToU(r))
	if out != want {
		return fmt.Sprintf("VIOL[c07-decode-differs]: RepresentativeToPublicKey(%x) = %x, reference Elligator 2 map gives %x", r, out, want)
	}
	for _, top := range []byte{0x00, 0x40, 0x80, 0xc0} {
		v := in
		v[31] = v[31]&0x3f | top
		var o2 [32]byte
		RepresentativeToPublicKey(&o2, &v)
		if o2 != out {
			return fmt.Sprintf("VIOL[c07-top-bits-not-ignored]: decoding %x with top bits %02x gives %x instead of %x", r, top, o2, out)
		}
	}
	return ""
}

func TestVerifC07Decode(t *testing.T) {
	vf07Setup(t)
	c := ev.For("C07")
	c.Rule("decode: generated 32-byte strings (uniform, and 0, 1, 2, p-1, p, p+1, (p+-1)/2, 2^254-1, 2^254, 2^256-1, sqrt(-1), single-bit, top byte 3f/7f/ff/40/80/c0); oracle: decoding never panics, equals the math/big Elligator 2 map, and is invariant under the four settings of the top two bits; then a run of 1..4 close neighbours (one or two bits apart, mostly bits 248..255) and the first string again are decoded once each, back to back, every result judged against the reference map (decoding has no memory); non-trivial = every string (distinct by fingerprint)")
	rapid.Check(t, func(rt *rapid.T) {
		r := vf07Repr(rt)
		if msg := vf07DecodeOne(r); msg != "" {
			rt.Fatalf("%s", msg)
		}
		// decoding is a function of the string alone, whatever was decoded before: a run of close neighbours
		// (one or two bits apart, mostly in the last byte) and then the first string again, each decoded
		// once, back to back, and judged against the reference map
		seq := [][]byte{append([]byte(nil), r...)}
		for k, nn := 0, rapid.IntRange(1, 4).Draw(rt, "neighbours"); k < nn; k++ {
			nb := append([]byte(nil), seq[len(seq)-1]...)
			for f, nf := 0, rapid.IntRange(1, 2).Draw(rt, "flips"); f < nf; f++ {
				bit := rapid.SampledFrom([]int{248, 249, 248, 249, 250, 251, 252, 253, 254, 255, 0, 1, 7, 8, 127, 128, 247}).Draw(rt, "bit")
				if rapid.IntRange(0, 3).Draw(rt, "anyBit") == 0 {
					bit = rapid.IntRange(0, 255).Draw(rt, "bitAny")
				}
				nb[bit/8] ^= 1 << uint(bit%8)
			}
			seq = append(seq, nb)
		}
		seq = append(seq, append([]byte(nil), r...))
		for i, sv := range seq {
			var in, out [32]byte
			copy(in[:], sv)
			copy(out[:], seq[(i+1)%len(seq)]) // (an output array that is not zero)
			RepresentativeToPublicKey(&out, &in)
			if want := refx.ToLE(refx.MapToU(sv)); out != want {
				rt.Fatalf("VIOL[c07-reference-map]: decode #%d of a run of neighbouring strings: %x decodes to %x, the reference Elligator 2 map gives %x (decoded just before: %x)", i, sv, out, want, seq[(i+len(seq)-1)%len(seq)])
			}
			if !bytes.Equal(in[:], sv) {
				rt.Fatalf("VIOL[c07-decode-mutates-input]: decoding changed its input")
			}
		}
		c.Case(ev.Hash("decode", r), true, []string{"decode"}, func() any { return map[string]any{"unit": "decode", "string": ev.Hex(r)} })
	})
}

func FuzzVerifC07Decode(f *testing.F) {
	vf07Setup(f)
	f.Add(make([]byte, 32))
	f.Add(bytes.Repeat([]byte{0xff}, 32))
	le := refx.ToLE(new(big.Int).Sub(refx.P, big.NewInt(1)))
	f.Add(le[:])
	f.Fuzz(func(t *testing.T, in []byte) {
		if len(in) != 32 {
			return
		}
		if msg := vf07DecodeOne(in); msg != "" {
			t.Fatalf("%s", msg)
		}
	})
}

// TestVerifC07Concurrent: key generation is a pure function of (key, tweak) also
// when many goroutines generate keys at once (connections do so concurrently).
func TestVerifC07Concurrent(t *testing.T) {
	vf07Setup(t)
	c := ev.For("C07")
	c.Rule("concurrent: 256 (key, tweak) pairs are encoded sequentially first; then G goroutines (quick 16, thorough 32 and under -race) each perform thousands of ScalarBaseMult calls over those pairs at once; oracle: every concurrent result (ok, public key, representative) equals the sequential one and the representative decodes to the public key; non-trivial = a successful encoding under concurrency")
	type res struct {
		ok        bool
		pub, repr [32]byte
	}
	n := 256
	keys := make([][32]byte, n)
	tweaks := make([]byte, n)
	want := make([]res, n)
	for i := range keys {
		copy(keys[i][:], detrand.Bytes(0xc07c0000+uint64(i), 32))
		tweaks[i] = byte(i * 37)
		want[i].ok = ScalarBaseMult(&want[i].pub, &want[i].repr, &keys[i], tweaks[i])
	}
	g := 16
	per := 3000
	if ev.Thorough() {
		g, per = 32, 6000
	}
	var wg sync.WaitGroup
	errs := make(chan string, g)
	var okCount int64
	var mu sync.Mutex
	for w := 0; w < g; w++ {
		wg.Add(1)
		go func(w int) {
			defer wg.Done()
			local := int64(0)
			for j := 0; j < per; j++ {
				i := (w*7919 + j*31) % n
				var r res
				k := keys[i]
				r.ok = ScalarBaseMult(&r.pub, &r.repr, &k, tweaks[i])
				if r != want[i] {
					errs <- fmt.Sprintf("VIOL[c07-not-a-function-under-concurrency]: ScalarBaseMult(%x, tweak %d) called concurrently returned (ok=%v, pub %x, repr %x); the same call made alone returns (ok=%v, pub %x, repr %x)", keys[i], tweaks[i], r.ok, r.pub, r.repr, want[i].ok, want[i].pub, want[i].repr)
					return
				}
				if r.ok {
					var dec [32]byte
					RepresentativeToPublicKey(&dec, &r.repr)
					if dec != r.pub {
						errs <- fmt.Sprintf("VIOL[c07-roundtrip]: concurrent: representative %x decodes to %x, public key %x", r.repr, dec, r.pub)
						return
					}
					local++
				}
			}
			mu.Lock()
			okCount += local
			mu.Unlock()
		}(w)
	}
	wg.Wait()
	select {
	case m := <-errs:
		t.Fatalf("%s", m)
	default:
	}
	total := int64(g * per)
	c.Bulk(total, 0)
	c.Class("concurrent-calls", total)
	c.Class("concurrent-successful-encodings", okCount)
	// distinct non-trivial cases are the distinct successful (key, tweak) pairs exercised
	for i := range keys {
		if want[i].ok {
			c.Case(ev.Hash("conc", keys[i][:], tweaks[i]), true, []string{"concurrent-pair"}, func() any {
				return map[string]any{"unit": "concurrent", "private_key": ev.Hex(keys[i][:]), "tweak": tweaks[i], "goroutines": g}
			})
		}
	}
}
