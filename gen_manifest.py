#!/usr/bin/env python3
"""Writes MANIFEST.json from checks_config.CHECKS and manifest_text.TEXT."""
import json
import os
import sys

HERE = os.path.dirname(os.path.abspath(__file__))
sys.path.insert(0, HERE)
import checks_config  # noqa: E402
import manifest_text  # noqa: E402

ALL = ["C%02d" % i for i in range(1, 21)]


def main():
    checks = []
    ready = set(open(os.path.join(HERE, "units", "READY")).read().split())
    for pid in ALL:
        if pid not in checks_config.CHECKS or pid not in ready:
            continue
        spec = checks_config.CHECKS[pid]
        tx = manifest_text.TEXT[pid]
        checks.append({
            "property_id": pid,
            "quick_cmd": "./check %s quick" % pid,
            "thorough_cmd": "./check %s thorough" % pid,
            "evidence_file": "/verif/evidence/%s.json" % pid,
            "replay_cmd_template": "./check %s --replay {path}" % pid,
            "engine": tx.get("engine", "rapid+harness"),
            "level_claimed": {"category": spec.get("level", "exploration"), "text": tx["level_text"],
                              "design_ref": "DESIGN.md section 3, %s" % pid},
            "level_note": tx["level_note"],
            "technique": tx["technique"],
        })
    na = [{"property_id": pid, "reason": manifest_text.NOT_APPLICABLE.get(pid, "check not built yet in this round (planned; see DESIGN.md section 8)")}
          for pid in ALL if pid not in checks_config.CHECKS or pid not in ready]
    doc = {
        "version": 1,
        "setup_cmd": "./check --build-all",
        "hooks": {
            "guard": "verif",
            "enable": "no source hooks: harness files carrying the build tag 'verif' are injected at build time with 'go test -c -tags verif -overlay ... -modfile ...' (see DESIGN.md 1.1)",
            "baseline_off_cmd": "cd /repo && GOFLAGS=-mod=mod GOPROXY=off GOSUMDB=off go test -vet=off -count=1 ./...",
            "source_commits": [],
            "add_only": True,
        },
        "engines": [
            {"name": "check", "path": "/verif/check", "serves_properties": [c["property_id"] for c in checks],
             "kind_free_text": "python driver: overlay build of harness into /repo packages, sharded rapid / enumeration / native-fuzz runs, evidence merge"},
            {"name": "verifkit", "path": "/verif/harness/kit", "serves_properties": [c["property_id"] for c in checks],
             "kind_free_text": "Go harness library: in-memory gated wire with quiescence + virtual deadlines, deterministic RNG override, evidence collector, independent reference implementations"},
        ],
        "checks": checks,
        "not_applicable": na,
        "notes": manifest_text.NOTES,
    }
    json.dump(doc, open(os.path.join(HERE, "MANIFEST.json"), "w"), indent=1)
    print("wrote MANIFEST.json: %d checks, %d not_applicable" % (len(checks), len(na)))


if __name__ == "__main__":
    main()
